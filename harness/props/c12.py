"""C12 — Dilation L2 framing/encryption/encoding: correspondence + oracle on the real code."""
from unittest import mock

from zope.interface import alsoProvides

from wormhole._dilation import connection as dc
from wormhole._dilation.connection import (DilatedConnectionProtocol, Disconnect, KCM, Ping, Pong, Open, Data, Close,
                                           Ack, encode_record, parse_record)
from wormhole._dilation.encode import to_be4, from_be4
from wormhole._dilation.roles import LEADER, FOLLOWER
from wormhole._interfaces import IDilationConnector, IDilationManager

from ..core import Result
from ..fakes import ToyNoise, FakeTransport, hx, toy_tag
from ..util import automat_state

ID = "C12"
PROP_MODULES = ["WV.Props.C12"]
# translation validation of the L2 method bodies (tools/extract.py::extract_pyir_l2 -> WV/Gen/PyIRL2.lean, interpreter
# WV/Model/PyIR.lean): part of the check as soon as the module is installed (agents/deepL2_integration.md)
import os as _os
if _os.path.exists(_os.path.join(_os.path.dirname(_os.path.dirname(_os.path.dirname(_os.path.abspath(__file__)))),
                                 "lean", "WV", "Props", "PyIRL2_C12.lean")):
    PROP_MODULES.append("WV.Props.PyIRL2_C12")
TRUSTED = ["Noise NNpsk0 (noiseprotocol is not installed; an ideal nonce-indexed AEAD interface in Lean, a toy AEAD in the harness)",
           "UTF-8 codec (validity predicate abstract in the theorems)",
           "Noise handshake verification (noise.read_message) is an abstract predicate handshakeOK in the theorems",
           "the relay's expected reply b'ok\\n' is written in the model by hand (correspondence-checked, not generated)",
           "Twisted: an exception leaving dataReceived drops the connection"]
RULE = ("record codec cases (7 types; every 32-bit field explicitly at 0, 1, 2**31-1, 2**31, 2**32-2, 2**32-1 through the "
        "codec and through a whole connection), be4 at the same values and beyond, frame sealing and whole connections at "
        "every encoded-message length around 0, 65519 (+1,+15,+16,+17), 2*65519 (-1..+17), 3*65519, a _Framer on its own under chunkings (tokens vs one-shot), and whole-connection byte "
        "streams (relay/no relay, leader/follower; the peer's bytes produced by the real send_record and compared with "
        "the model's sendRecord) under random / 1-byte / per-frame chunkings with single-point corruptions, truncation, "
        "insertion, wrong prologue, wrong relay reply, wrong key, swapped/duplicated frames; thorough adds every "
        "single-byte corruption and every truncation of a recorded honest stream; non-trivial = reaches a "
        "record/frame/error branch; distinct = distinct canonical output traces")

MAXP = 65519
MUTS = ["flip", "trunc", "insert", "badpro", "badrelay", "swap", "dupkcm", "wrongkey", "badhs", "emptyframe", "emptykcm"]
# every 32-bit field (scid, seqnum, resp_seqnum, frame length) is exercised at these values explicitly
BOUND32 = [0, 1, 2**31 - 1, 2**31, 2**32 - 2, 2**32 - 1]
BOUND = BOUND32 + [255, 256, 65535, 65536]
# encoded-message lengths at which send_record / decrypt_message change behaviour:
# NOISE_MAX_PAYLOAD = 65519 (plaintext per packet), NOISE_MAX_CIPHERTEXT = 65535 (= 65519 + 16)
SIZES = [0, 1, 9, MAXP - 1, MAXP, MAXP + 1, MAXP + 15, MAXP + 16, MAXP + 17, 2 * MAXP - 1, 2 * MAXP, 2 * MAXP + 1,
         2 * MAXP + 16, 2 * MAXP + 17, 3 * MAXP, 3 * MAXP + 1]
IN_RANGE = range(0, 2**32)
# The record types are plain namedtuples: records of DIFFERENT types with the same arity and equal fields compare
# (and hash) equal.  With well-typed fields that is exactly Ping(x) == Pong(x) (arity 1; Ack holds an int, not
# bytes); KCM is alone at arity 0, Close at 2, and Open/Data (arity 3) differ in str vs bytes.  Anything keyed on
# ==/hash (a cache, a dict, a set, list.index/remove) confuses the two, so every stream carries such twins.
TWIN_IDS = ["00000000", "01020304", "ffffffff"]
# subprotocol names that are valid Unicode but NOT in NFC (nor NFKC): decomposed letters, compatibility
# singletons (KELVIN / ANGSTROM / OHM SIGN), conjoining Hangul jamo, a mix, and marks in non-canonical order.
# The codec must carry them code point for code point.
NON_NFC = ["e\u0301", "A\u030a", "\u212a", "\u212b", "\u2126", "\u1112\u1161\u11ab", "\u1100\u1161",
           "caf\u00e9-cafe\u0301-\u212b\u1112\u1161", "q\u0323\u0307", "q\u0307\u0323", "\u0344", "\ufb01\u2460"]


def rec_in_range(spec):
    """every integer field of the record is a 32-bit value (so encode_record must accept it)"""
    return all(v in IN_RANGE for v in spec[1:] if isinstance(v, int))


def show_rec(r):
    if isinstance(r, KCM):
        return "kcm"
    if isinstance(r, Ping):
        return "ping " + hx(r.ping_id)
    if isinstance(r, Pong):
        return "pong " + hx(r.ping_id)
    if isinstance(r, Open):
        return f"open {r.seqnum} {r.scid} {hx(r.subprotocol.encode('utf8'))}"
    if isinstance(r, Data):
        return f"data {r.seqnum} {r.scid} {hx(r.data)}"
    if isinstance(r, Close):
        return f"close {r.seqnum} {r.scid}"
    if isinstance(r, Ack):
        return f"ack {r.resp_seqnum}"
    raise TypeError(r)


def mk_rec(spec):
    k = spec[0]
    if k == "kcm":
        return KCM()
    if k == "ping":
        return Ping(bytes.fromhex(spec[1]))
    if k == "pong":
        return Pong(bytes.fromhex(spec[1]))
    if k == "open":
        return Open(spec[1], spec[2], bytes.fromhex(spec[3]).decode("utf8"))
    if k == "data":
        return Data(spec[1], spec[2], bytes.fromhex(spec[3]))
    if k == "close":
        return Close(spec[1], spec[2])
    if k == "ack":
        return Ack(spec[1])
    raise ValueError(spec)


def rand_rec(rng, wide=False):
    def num():
        if wide and rng.random() < 0.15:
            return rng.choice([2**32, 2**32 + 5, 2**40])
        return rng.choice(BOUND) if rng.random() < 0.5 else rng.randrange(2**32)
    k = rng.choice(["kcm", "ping", "pong", "open", "data", "close", "ack"])
    if k == "kcm":
        return ["kcm"]
    if k in ("ping", "pong"):
        # half of the ids come from a small pool: a Ping and a Pong with the SAME id (the keepalive exchange) then
        # meet inside one case and across the cases of one run, in both orders
        return [k, rng.choice(TWIN_IDS) if rng.random() < 0.5 else bytes(rng.randrange(256) for _ in range(4)).hex()]
    if k == "open":
        name = rng.choice(["", "a", "proto", "é", "名前", "x" * 40, "\U0001f600z"] + NON_NFC)
        return ["open", num(), num(), name.encode("utf8").hex()]
    if k == "data":
        n = rng.choice([0, 1, 2, 9, 100])
        return ["data", num(), num(), bytes(rng.randrange(256) for _ in range(n)).hex()]
    if k == "close":
        return ["close", num(), num()]
    return ["ack", num()]


def cases(rng, tier):
    n = 1 if tier == "quick" else 40
    out = []
    # corpus: records of different types whose fields are all equal (Ping(x) / Pong(x)), in both orders, within one
    # case.  These come first, so that what anything keyed on ==/hash does to them is reported on a self-contained
    # case: through a whole connection in both roles, through the selection world as the keepalive exchange of two
    # peers living in one process, and through the codec alone — and then again across separate cases
    for i, (a, b) in enumerate((("ping", "pong"), ("pong", "ping"))):
        x, y = "a1a2a3%02x" % i, "b1b2b3%02x" % i
        out.append(dict(kind="conn", relay=bool(i), leader=not i, chunk="rand", select_after=i, mut=None, mseed=40 + i,
                        recs=[[a, x], [b, x], ["ack", 1], [b, y], [a, y], [a, x], [b, x]]))
        out.append(dict(kind="sel", chunks=[10**6], turn_each_chunk=bool(i), mseed=40 + i,
                        gens=[dict(lq=[], fq=[], ll=[[a, "c1c2c3%02x" % i], ["ack", 0]], fl=[[b, "c1c2c3%02x" % i]]),
                              dict(lq=[["data", 0, 1, "00"]], fq=[], ll=[[b, "c4c4c4%02x" % i]], fl=[[a, "c4c4c4%02x" % i]])]))
        out.append(dict(kind="codecseq", recs=[[a, "d1d2d3%02x" % i], [b, "d1d2d3%02x" % i], [a, "d1d2d3%02x" % i],
                                               ["ack", 0xd1d2d300 + i], ["close", 1, 2], ["data", 1, 2, ""], ["open", 1, 2, ""]]))
    # … and across cases: one process doing first the one, later the other (separate codec calls, separate
    # connections, separate generations), in both orders
    for i, (a, b) in enumerate((("ping", "pong"), ("pong", "ping"))):
        out.append(dict(kind="seq", cases=[dict(kind="codec", rec=[a, tid]) for tid in TWIN_IDS] +
                        [dict(kind="codec", rec=[b, tid]) for tid in TWIN_IDS]))
        out.append(dict(kind="seq", cases=[
            dict(kind="conn", relay=False, leader=bool(i), chunk="all", select_after=0, mut=None, mseed=44,
                 recs=[[a, "e1e2e3e4"], ["ack", 7]]),
            dict(kind="conn", relay=True, leader=not i, chunk="rand", select_after=1, mut=None, mseed=45,
                 recs=[["close", 1, 2], [b, "e1e2e3e4"]]),
            dict(kind="sel", chunks=[10**6], turn_each_chunk=False, mseed=46,
                 gens=[dict(lq=[], fq=[], ll=[[a, "e1e2e3e4"]], fl=[[b, "e1e2e3e4"]])])]))
    # corpus: every 32-bit field of every record type at every boundary value (the other field runs through
    # the boundaries too): through a whole connection (real send_record on one side, real dataReceived on
    # the other) first, so that a failure is reported as a record the peer does not recover …
    bcodec = [["ack", v] for v in BOUND32]
    for k in ("open", "data", "close"):
        for a in BOUND32:
            for b in BOUND32:
                bcodec.append([k, a, b] + ([] if k == "close" else ["c3a9" if k == "open" else "00ff"]))
    for i in range(0, len(bcodec), 12):
        out.append(dict(kind="conn", relay=bool(i % 24), leader=bool(i % 36), recs=bcodec[i:i + 12],
                        chunk=["all", "rand", "frames", "one"][(i // 12) % 4], select_after=[0, 1, 99][(i // 12) % 3],
                        mut=None, mseed=i))
    # corpus: subprotocol names that are not NFC-normalised, through a whole connection (both roles) and the codec
    nfc = [["open", i, 2 * i + 1, x.encode("utf8").hex()] for i, x in enumerate(NON_NFC)]
    for ld in (True, False):
        out.append(dict(kind="conn", relay=not ld, leader=ld, recs=nfc, chunk="rand" if ld else "frames",
                        select_after=1, mut=None, mseed=7))
    for r in nfc:
        out.append(dict(kind="codec", rec=r))
    # … then through the codec alone
    for r in bcodec:
        out.append(dict(kind="codec", rec=r))
    # corpus: the real Connector selection path, both roles, with records already waiting for the connection
    # (written before the first connection / un-acked from the previous generation) and records written later
    q2 = [["open", 0, 1, "c3a9"], ["data", 1, 1, "00010203"]]
    out.append(dict(kind="sel", gens=[dict(lq=q2, fq=[], ll=[["close", 2, 1]], fl=[])], chunks=[10**6],
                    turn_each_chunk=False, mseed=1))
    out.append(dict(kind="sel", gens=[dict(lq=[], fq=q2, ll=[["ack", 1]], fl=[["close", 2, 1]])], chunks=[1],
                    turn_each_chunk=True, mseed=2))
    out.append(dict(kind="sel", gens=[dict(lq=[], fq=[], ll=q2, fl=[["ping", "01020304"]]),
                                      dict(lq=q2 + [["data", 2, 1, "%%BIG%%%d" % (MAXP - 8)]], fq=[["open", 0, 3, ""]],
                                           ll=[["close", 3, 1]], fl=[["data", 1, 3, "ff"]]),
                                      dict(lq=[["close", 3, 1]], fq=[], ll=[], fl=[])],
                    chunks=[5, 1000, 70000], turn_each_chunk=False, mseed=3))
    out.append(dict(kind="sel", gens=[dict(lq=[], fq=[], ll=[], fl=[])], chunks=[3], turn_each_chunk=True, mseed=4))
    # corpus: flow control and lifecycle around an honest stream.  (1) a slow consumer pauses the connection while it
    # is being handed the n-th record of a read that holds several more, and resumes later, with nothing else
    # arriving; (2) the connection ends right after the read(s) that brought the KCM and the first records, before
    # the Connector's eventual accept turn (sel world) / before select() (conn world).  Everything that arrived
    # completely must still reach the manager.
    burst = [["open", 0, 1, ""], ["data", 1, 1, "aa"], ["data", 2, 1, "bb"], ["data", 3, 1, "cc"], ["data", 4, 1, "dd"],
             ["close", 5, 1]]
    for i, pa in enumerate(([1], [2], [3], [1, 3], [5], [6])):
        out.append(dict(kind="conn", relay=bool(i % 2), leader=bool(i % 3), recs=burst, chunk=["all", "frames", "rand"][i % 3],
                        select_after=[0, 99][i % 2], mut=None, mseed=60 + i, pause_at=pa))
        out.append(dict(out[-1], eager=True, chunk="frames", select_after=0))
        out.append(dict(out[-1], eager=True, chunk="rand"))
        out.append(dict(kind="sel", chunks=[[10**6], [40], [10**6]][i % 3], turn_each_chunk=bool(i % 2), mseed=60 + i,
                        gens=[dict(lq=burst[:2] if i % 2 else [], fq=[], ll=burst[2:] if i % 2 else burst,
                                   fl=[["data", 0, 3, "01"], ["data", 1, 3, "02"], ["data", 2, 3, "03"], ["close", 3, 3]],
                                   fpause=pa, lpause=[pa[0] % 3 + 1] if i % 2 else [])]))
    for i in range(6):
        out.append(dict(kind="conn", relay=bool(i % 2), leader=bool(i % 3), recs=burst[:i], chunk=["all", "rand", "one"][i % 3],
                        select_after=0, mut=None, mseed=70 + i, lose=True))
        out.append(dict(kind="sel", chunks=[[10**6], [30], [7, 100]][i % 3], turn_each_chunk=bool(i % 2), mseed=70 + i,
                        gens=[dict(lq=burst[:i + 1], fq=burst[:i % 3], ll=[], fl=[],
                                   cut=dict(side="FL"[i // 3 % 2] if i != 5 else "F", link=0, extra=i % 3)),
                              dict(lq=burst[i + 1:], fq=[], ll=[["ack", i]], fl=[])]))
    # corpus: several candidate connections per generation, all built by the real Connector's factories (a direct
    # link dialled by one side and accepted by the other's listener, a delayed relay link dialled by both); the
    # later candidate's two connectionMade calls land at every point of the first candidate's handshake
    g2 = dict(lq=q2, fq=[["open", 0, 3, ""]], ll=[["close", 2, 1]], fl=[["data", 1, 3, "ff"]])
    for sl in range(7):
        for sf in range(7):
            out.append(dict(kind="sel", gens=[dict(g2, links=[dict(relay=False, dial="LF"[(sl + sf) % 2], start=[0, 0]),
                                                              dict(relay=True, dial="L", start=[sl, sf])])],
                            chunks=[10**6], turn_each_chunk=True, mseed=sl * 7 + sf))
    for st in range(24):
        out.append(dict(kind="sel", gens=[dict(g2, links=[dict(relay=bool(st % 2), dial="F", start=[0, 0]),
                                                          dict(relay=False, dial="LF"[st % 2], start=[st, st + st % 3])])],
                        chunks=[20], turn_each_chunk=bool(st % 2), mseed=st))
    for st in range(6):
        out.append(dict(kind="sel", gens=[dict(g2, links=[dict(relay=True, dial="L", start=[st, st]),
                                                          dict(relay=False, dial="L", start=[0, 1]),
                                                          dict(relay=False, dial="F", start=[2, st])]),
                                          dict(g2, links=[dict(relay=False, dial="F", start=[0, 0]),
                                                          dict(relay=True, dial="L", start=[5 - st, st])])],
                        chunks=[5, 1000, 70000], turn_each_chunk=False, mseed=st))
    for _ in range(8):
        out.append(rand_sel_case(rng))
    # corpus: every size boundary of the Noise packet split, for sealing (real send_record vs model, and the
    # real decrypt_message must give the message back)
    for i in range(0, len(SIZES), 2):
        out.append(dict(kind="seal", sizes=SIZES[i:i + 2] + [3, SIZES[i]]))
    # corpus: be4 at every boundary, in and out of range
    out.append(dict(kind="be4", values=BOUND + [2**32, 2**32 + 1, 2**33]))
    # corpus: one Data / Open record whose encoding is exactly at / around every size boundary, honest
    for i, size in enumerate(SIZES[3:]):
        big = ["data", BOUND32[i % 6], BOUND32[(i + 3) % 6], "%%BIG%%%d" % (size - 9)]
        if i % 4 == 3:
            big = ["open", BOUND32[i % 6], BOUND32[(i + 3) % 6], "%%BIG%%%d" % (size - 9)]
        out.append(dict(kind="conn", relay=bool(i % 2), leader=bool(i // 2 % 2),
                        recs=[["ack", 1], big, ["close", 3, 4]],
                        chunk=["all", "rand", "frames"][i % 3], select_after=[0, 1, 99][i % 3], mut=None, mseed=i))
    # corpus: every kind of manipulation once, on a fixed small stream
    small = [["open", 0, 1, "c3a9"], ["data", 1, 1, "00010203"], ["ping", "01020304"], ["close", 2, 1]]
    for i, m in enumerate(MUTS):
        for relay in (False, True):
            out.append(dict(kind="conn", relay=relay, leader=bool(i % 2), recs=small, chunk=["one", "rand", "all"][i % 3],
                            select_after=i % 3, mut=m, mseed=1000 + i))
    if tier == "thorough":
        # small-scope exhaustive: every single-byte corruption (two bit patterns) and every truncation
        # of the recorded honest stream, relay and direct
        tiny = [["data", 1, 1, "aa55"], ["ack", 9]]
        for relay in (False, True):
            for ld in (True, False):
                total = stream_len(relay, ld, tiny)
                for pos in range(total):
                    for bit in (0, 3, 7):
                        out.append(dict(kind="conn", relay=relay, leader=ld, recs=tiny, chunk=["one", "rand", "all"][bit % 3],
                                        select_after=bit % 2, mut="flip", mseed=pos, pos=pos, bit=bit))
                    out.append(dict(kind="conn", relay=relay, leader=ld, recs=tiny, chunk="rand", select_after=1,
                                    mut="trunc", mseed=pos, pos=pos))
    for _ in range(30 * n):
        out.append(rand_framer_case(rng))
    for _ in range(12 * n):
        out.append(rand_sel_case(rng))
    for _ in range(60 * n):
        out.append(dict(kind="codec", rec=rand_rec(rng, wide=True)))
    for _ in range(40 * n):
        ln = rng.choice([0, 1, 2, 5, 8, 9, 10, 12, 20])
        b = bytes([rng.choice([0, 1, 2, 3, 4, 5, 6, 7, 255])] + [rng.randrange(256) for _ in range(ln)])
        if rng.random() < 0.2:
            b = b""
        out.append(dict(kind="parse", data=b.hex()))
    for _ in range(60 * n):
        recs = [rand_rec(rng) for _ in range(rng.randrange(0, 5))]
        recs = [r for r in recs if r[0] != "kcm"]
        if rng.random() < 0.15:
            recs.append(["data", rng.choice(BOUND32), rng.choice(BOUND32), "%%BIG%%%d" % (rng.choice(SIZES[3:]) - 9)])
        out.append(dict(kind="conn", relay=rng.random() < 0.4, leader=rng.random() < 0.5, recs=recs,
                        chunk=rng.choice(["all", "one", "rand", "rand", "frames"]),
                        select_after=rng.choice([0, 1, 2, 99]),
                        mut=rng.choice([None, None, "flip", "flip"] + MUTS),
                        mseed=rng.randrange(10**6)))
        r8 = rng.random()
        if r8 < 0.2:
            out[-1]["pause_at"] = sorted({rng.randrange(1, 5) for _ in range(rng.choice([1, 2]))})
        elif r8 < 0.3:
            out[-1]["lose"] = True
    return out


def _is_hex(x):
    return x == "-" or (len(x) % 2 == 0 and all(c in "0123456789abcdef" for c in x))


def _catch(f):
    try:
        return f()
    except Exception as e:
        return type(e).__name__


def _fresh_process_state():
    """A case must not depend on the cases run before it in this process (it has to replay on its own, and the
    shrinker re-runs variants in this process): drop whatever the anchored modules have memoised."""
    from wormhole._dilation import encode as _enc
    for modl in (dc, _enc):
        for v in list(vars(modl).values()):
            clear = getattr(v, "cache_clear", None)
            if callable(clear):
                clear()


def run_case(case):
    _fresh_process_state()
    return _run_one(case)


def _run_one(case):
    k = case["kind"]
    if k == "seq":
        # several cases one after the other in ONE process state (connections / codec calls that follow each
        # other in a long-lived process), reported and replayed as one self-contained case
        lines, exp, viol, tags = [], [], [], ["seq"]
        for i, sub in enumerate(case["cases"]):
            r = _run_one(sub)
            lines += ["reset"] + r.lines
            exp += ["ok"] + r.expect
            viol += [(sig, f"step {i + 1} of {len(case['cases'])} ({sub['kind']}): {msg}") for sig, msg in r.violations]
            tags += r.tags
        return Result(lines, exp, viol, tags)
    if k == "be4":
        lines, exp, viol = [], [], []
        for v in case["values"]:
            lines.append(f"be4 {v}")
            r = _catch(lambda: hx(to_be4(v)))
            exp.append(r)
            if v in IN_RANGE:
                if r == "ValueError" or len(r) != 8:
                    viol.append(("be4-roundtrip", f"to_be4({v}) = {r} for a 32-bit value"))
                    continue
                lines.append(f"unbe4 {r}")
                back = _catch(lambda: str(from_be4(bytes.fromhex(r))))
                exp.append(back)
                if back != str(v):
                    viol.append(("be4-roundtrip", f"from_be4(to_be4({v})) = {back}"))
            elif r != "ValueError":
                viol.append(("be4-range", f"to_be4({v}) = {r}: a value outside 32 bits was encoded"))
        for h in ["-", "00", "000000", "0000000001"]:
            lines.append(f"unbe4 {h}")
            exp.append(_catch(lambda: str(from_be4(bytes.fromhex(h) if h != "-" else b""))))
        return Result(lines, exp, viol, tags=["be4"])
    if k == "codec":
        spec = case["rec"]
        r = mk_rec(spec)
        line = "enc " + show_rec(r)
        e = _catch(lambda: hx(encode_record(r)))
        lines, exp, viol = [line], [e], []
        tags = ["codec:" + spec[0]]
        if rec_in_range(spec) and not _is_hex(e):
            viol.append(("codec-roundtrip", f"encode_record({show_rec(r)}) raised {e}: a well-formed record cannot be sent"))
        if _is_hex(e):
            lines.append("parse " + e)
            back = _catch(lambda: show_rec(parse_record(bytes.fromhex(e))))
            exp.append(back)
            if back != show_rec(r):
                viol.append(("codec-roundtrip", f"parse(encode({show_rec(r)})) = {back}"))
            elif isinstance(r, Open):
                # the name itself, code point by code point
                got_name = parse_record(bytes.fromhex(e)).subprotocol
                if [ord(ch) for ch in got_name] != [ord(ch) for ch in r.subprotocol]:
                    viol.append(("codec-roundtrip", f"Open.subprotocol {[hex(ord(ch)) for ch in r.subprotocol]} came back "
                                 f"as {[hex(ord(ch)) for ch in got_name]}"))
        else:
            tags.append("codec:" + e)
        if any(isinstance(v, int) and v in BOUND32 for v in spec[1:]):
            tags.append("codec:boundary-field")
        return Result(lines, exp, viol, tags)
    if k == "codecseq":
        # several records encoded one after the other in one process: each must come back as itself, type included
        lines, exp, viol = [], [], []
        for spec in case["recs"]:
            r = mk_rec(spec)
            lines.append("enc " + show_rec(r))
            e = _catch(lambda: hx(encode_record(r)))
            exp.append(e)
            if not _is_hex(e):
                if rec_in_range(spec):
                    viol.append(("codec-roundtrip", f"encode_record({show_rec(r)}) raised {e}"))
                continue
            lines.append("parse " + e)
            back = _catch(lambda: parse_record(bytes.fromhex(e) if e != "-" else b""))
            exp.append(back if isinstance(back, str) else show_rec(back))
            if isinstance(back, str) or type(back) is not type(r) or tuple(back) != tuple(r):
                viol.append(("codec-roundtrip", f"after {[sp[0] for sp in case['recs']]}: parse(encode({show_rec(r)})) = "
                             f"{back if isinstance(back, str) else show_rec(back)}"))
        return Result(lines, exp, viol, tags=["codecseq"])
    if k == "parse":
        b = bytes.fromhex(case["data"])
        r = _catch(lambda: show_rec(parse_record(b)))
        return Result(["parse " + hx(b)], [r], tags=["parse:" + (r.split(" ")[0])])
    if k == "seal":
        from ..util import set_automat_state
        lines, exp, viol = [], [], []
        f = mock.Mock()
        alsoProvides(f, dc.IFramer)
        rec = dc._Record(f, ToyNoise(), LEADER)
        rx = dc._Record(f, ToyNoise(), FOLLOWER)       # the peer's receive side, nonces in step
        set_automat_state(rx, "want_message", attr="n")
        for size in case["sizes"]:
            payload = bytes((i * 7 + size) % 256 for i in range(max(size - 9, 0)))
            msg = (b"\x04" + b"\x00\x00\x00\x06" + b"\x00\x00\x00\x05" + payload) if size >= 9 else bytes(range(size))
            lines.append("seal " + hx(msg))
            # the real send_record / decrypt_message on a message of exactly this length
            with mock.patch.object(dc, "encode_record", return_value=msg), \
                    mock.patch.object(dc, "parse_record", side_effect=lambda m: m):
                try:
                    rec.send_record(object())
                    body = f.send_frame.call_args[0][0]
                    exp.append(hx(body))
                except Exception as e:
                    exp.append(type(e).__name__)
                    viol.append(("multi-packet-roundtrip", f"send_record raised {type(e).__name__} for a {size}-byte message"))
                    break
                back = _catch(lambda: rx.got_frame(body))
            if back != msg:
                viol.append(("multi-packet-roundtrip", f"decrypt_message(send_record(<{size}-byte message>)) = "
                             f"{back if isinstance(back, str) else '<%d bytes>' % len(back)}"))
                break
        return Result(lines, exp, viol, tags=["seal"])
    if k == "conn":
        return run_conn(case)
    if k == "framer":
        return run_framer(case)
    if k == "sel":
        return run_sel(case)
    raise ValueError(k)


def frame(b):
    return to_be4(len(b)) + b


class WrongKeyNoise(ToyNoise):
    """a peer that does not have the dilation key: every tag it produces is off by one"""

    def encrypt(self, m):
        c = m + bytes([(toy_tag(self.tx, m)[0] + 1) % 256]) * 16
        self.tx += 1
        return c


def expand_rec(spec):
    """`%BIG%<n>` stands for a deterministic n-byte payload (keeps cases and replays small)"""
    if spec[0] == "data" and isinstance(spec[3], str) and spec[3].startswith("%BIG%"):
        n = int(spec[3][5:])
        return ["data", spec[1], spec[2], bytes((i * 7 + n) % 251 for i in range(n)).hex()]
    if spec[0] == "open" and isinstance(spec[3], str) and spec[3].startswith("%BIG%"):
        n = int(spec[3][5:])
        return ["open", spec[1], spec[2], bytes(97 + (i * 5 + n) % 26 for i in range(n)).hex()]
    return spec


def peer_pieces(relay, leader, recspecs, wrongkey=False):
    """the honest peer's byte stream, piece by piece, built with the REAL sender-side code
    (`_Framer.send_frame`, `_Record.send_record`) over the toy noise"""
    from wormhole._dilation.connector import PROLOGUE_LEADER, PROLOGUE_FOLLOWER
    inbound = PROLOGUE_FOLLOWER if leader else PROLOGUE_LEADER
    outbound = PROLOGUE_LEADER if leader else PROLOGUE_FOLLOWER
    peer_noise = WrongKeyNoise() if wrongkey else ToyNoise()
    pieces = []
    if relay:
        pieces.append(("relay", b"ok\n"))
    pieces.append(("prologue", inbound))
    pieces.append(("handshake", frame(peer_noise.write_message())))
    ptx = FakeTransport()
    pfr = dc._Framer(ptx, inbound, outbound)
    pfr._can_send_frames = True
    prec = dc._Record(pfr, peer_noise, FOLLOWER if leader else LEADER)
    recs = [KCM()] + [mk_rec(expand_rec(sp)) for sp in recspecs]
    sends = []      # per record: the bytes written, or the name of the exception send_record raised
    for r in recs:
        try:
            prec.send_record(r)
            sends.append(ptx.written.pop())
            pieces.append(("rec", sends[-1]))
        except Exception as e:
            del ptx.written[:]
            sends.append(type(e).__name__)
    return inbound, outbound, pieces, recs, sends


def stream_len(relay, leader, recspecs):
    return sum(len(p[1]) for p in peer_pieces(relay, leader, recspecs)[2])


def first_reject_chunk(chunks, stages):
    """The statement of prologue_reject / relay_reject on a chunk list: index of the chunk after which
    the bytes received for the current stage (relay reply, then prologue) diverge from what is
    expected AND contain a newline or are at least as long as it; None if that never happens."""
    stages = list(stages)
    buf = b""
    for i, c in enumerate(chunks):
        buf += c
        while stages:
            e = stages[0]
            if buf.startswith(e):
                buf = buf[len(e):]
                stages.pop(0)
                continue
            if not e.startswith(buf) and (b"\n" in buf or len(buf) >= len(e)):
                return i
            break
        if not stages:
            return None
    return None


def run_conn(case):
    import random
    rng = random.Random(case["mseed"])
    leader = case["leader"]
    role = LEADER if leader else FOLLOWER
    mut = case["mut"]
    if mut == "badrelay" and not case["relay"]:
        mut = None
    inbound, outbound, pieces, intended, sends = peer_pieces(case["relay"], leader, case["recs"], wrongkey=(mut == "wrongkey"))
    recs = [r for r, sd in zip(intended, sends) if isinstance(sd, bytes)]     # what did get onto the wire
    honest_pieces = list(pieces)
    kcm_piece = 3 if case["relay"] else 2      # pieces before the KCM: [relay] prologue handshake
    first_bad_piece = None     # index of the first piece that is not delivered intact
    must_drop = False
    if mut == "swap":
        if len(pieces) >= kcm_piece + 2:
            i = len(pieces) - 2
            pieces[i], pieces[i + 1] = pieces[i + 1], pieces[i]
            first_bad_piece = i
            must_drop = True
        else:
            mut = None
    elif mut == "dupkcm":
        pieces.insert(kcm_piece + 1, pieces[kcm_piece])
        first_bad_piece = kcm_piece + 1
        must_drop = True
    elif mut == "wrongkey":
        first_bad_piece = kcm_piece
        must_drop = True
    elif mut == "badhs":
        pieces[kcm_piece - 1] = ("handshake", frame(rng.choice([b"xx", b"", b"hs2", b"h"])))
        first_bad_piece = kcm_piece - 1
        must_drop = True
    elif mut in ("emptyframe", "emptykcm"):
        # a frame with NO ciphertext (the four bytes 00 00 00 00) in the place of the peer's KCM or of a later record:
        # anybody on the path can write it without any key, so it must never count as a keyed message
        i = kcm_piece if mut == "emptykcm" else rng.randrange(kcm_piece, len(pieces))
        pieces[i] = ("rec", frame(b""))
        first_bad_piece = i
        must_drop = True
    stream = b"".join(p[1] for p in pieces)
    offs = [0]
    for p in pieces:
        offs.append(offs[-1] + len(p[1]))

    def piece_of(pos):
        for i in range(len(pieces)):
            if offs[i] <= pos < offs[i + 1]:
                return i
        return len(pieces)
    if mut == "flip":
        pos = case.get("pos", None)
        if pos is None:
            pos = rng.randrange(len(stream))
        bit = case.get("bit", None)
        if bit is None:
            bit = rng.randrange(8)
        stream = stream[:pos] + bytes([stream[pos] ^ (1 << bit)]) + stream[pos + 1:]
        first_bad_piece = piece_of(pos)
        kind = pieces[first_bad_piece][0]
        in_len_prefix = kind in ("handshake", "rec") and pos - offs[first_bad_piece] < 4
        must_drop = not in_len_prefix
    elif mut == "trunc":
        pos = case.get("pos", None)
        if pos is None:
            pos = rng.randrange(len(stream))
        stream = stream[:pos]
        first_bad_piece = piece_of(pos)
    elif mut == "insert":
        pos = rng.randrange(len(stream) + 1)
        stream = stream[:pos] + bytes([rng.randrange(256)]) + stream[pos:]
        first_bad_piece = piece_of(pos)
    elif mut == "badpro":
        wrong = rng.choice([outbound, b"Magic-Wormhole Dilation Handshake v2 Leader\n\n", b"\n", b"GET / HTTP/1.0\r\n\r\n",
                            inbound[:-1] + b"x", inbound[:-2] + b"x\n", b"M\n", inbound[:10]])
        i = 1 if case["relay"] else 0
        stream = stream[:offs[i]] + wrong + stream[offs[i + 1]:]
        first_bad_piece = i
    elif mut == "badrelay":
        wrong = rng.choice([b"no\n", b"ok", b"okk\n", b"\n", b"bad relay\n", b"o\n", b"OK\n", b"ok\r\n"])
        stream = wrong + stream[offs[1]:]
        first_bad_piece = 0
    if mut in ("flip", "trunc", "insert"):
        # the first piece that does not arrive intact = the piece holding the first byte that differs
        # from the honest stream (an inserted byte equal to its successor is an insertion further on)
        honest = b"".join(pc[1] for pc in pieces)
        d = next((i for i in range(min(len(stream), len(honest))) if stream[i] != honest[i]), min(len(stream), len(honest)))
        first_bad_piece = piece_of(d)
    # chunking
    ch = case["chunk"]
    if ch == "all":
        chunks = [stream] if stream else []
    elif ch == "one":
        chunks = [stream[i:i + 1] for i in range(len(stream))] if len(stream) < 600 else None
    elif ch == "frames":
        chunks = [p[1] for p in pieces] if mut is None else None
    else:
        chunks = None
    if chunks is None:
        chunks, i = [], 0
        while i < len(stream):
            n = rng.choice([1, 2, 3, 4, 5, 7, 50, 1000, 70000])
            chunks.append(stream[i:i + n])
            i += n

    # the real connection under test
    conn = mock.Mock()
    alsoProvides(conn, IDilationConnector)
    mgr = mock.Mock()
    alsoProvides(mgr, IDilationManager)
    got = []
    pause_at = set(case.get("pause_at") or [])      # the consumer pauses the connection while being handed these
    paused = []

    def got_record(r):
        got.append(r)
        if len(got) in pause_at and not paused:
            paused.append(len(got))
            p.pauseProducing()
    mgr.got_record = got_record
    from wormhole.eventual import EventualQueue
    from twisted.internet.task import Clock
    eq = EventualQueue(Clock())
    noise = ToyNoise()
    p = DilatedConnectionProtocol(eq, role, "desc", conn, noise, outbound, inbound)
    t = PausableTransport()
    p.transport = t
    if case["relay"]:
        p.use_relay(b"please relay\n")
    p.connectionMade()
    lose = bool(case.get("lose"))                   # the connection ends after the last byte, before select()

    def summary():
        fr = p._record._framer
        hs = frame(b"hs") in t.written
        kcm = frame(b"\x00" + bytes([1]) * 16) in t.written  # toy tag of (nonce 0, b"\0") = 0*7+0+1
        return (f"{automat_state(fr, 'm')} {automat_state(p._record, 'n')} {automat_state(p, 'm')} buf={len(fr._buffer)} "
                f"hs={'true' if hs else 'false'} kcm={'true' if kcm else 'false'} cand={'true' if conn.add_candidate.called else 'false'} "
                f"queued={len(p._inbound_record_queue)} mgr=[{'; '.join(show_rec(r) for r in got)}]")

    lines = [f"new {1 if case['relay'] else 0} {1 if leader else 0} {hx(inbound)}"]
    exp = ["ok"]
    if mut != "wrongkey":
        # the model's honest sender against the real one: every record piece, byte for byte
        for r, sd in zip(intended, sends):
            lines.append("send " + show_rec(r))
            exp.append(hx(sd) if isinstance(sd, bytes) else sd)
    dead = None
    dead_at = None
    selected = False
    nsel = 0
    delivered_before_select = 0
    tags = ["conn:" + ("relay" if case["relay"] else "direct"), "conn:" + ("leader" if leader else "follower"),
            "chunk:" + ch, "mut:" + str(mut)]
    select_error = []

    def do_resume():
        # the consumer catches up and resumes (Inbound.subchannel_resumeProducing -> resumeProducing())
        nonlocal dead
        if paused and not dead:
            del paused[:]
            lines.append("resume")
            try:
                p.resumeProducing()
                exp.append(summary())
            except Exception as e:
                dead = type(e).__name__
                exp.append(dead + " " + summary())

    def do_select():
        nonlocal selected
        selected = True
        if lose:
            lines.append("lost")
            exp.append(_catch(lambda: (p.connectionLost(None), summary())[1]))
        lines.append("select")
        try:
            p.select(mgr)
            exp.append(summary())
        except Exception as e:   # select() on a connection that offered itself as candidate must work
            exp.append(type(e).__name__)
            select_error.append(type(e).__name__)
        do_resume()

    eager = bool(case.get("eager"))      # a transport that has read ahead (TLS-like wrappers): see below
    early = set()

    def deliver(ci, c):
        nonlocal dead, dead_at, delivered_before_select
        lines.append("data " + hx(c))
        if dead:
            exp.append("dead")
            return
        lost_before = t.lost
        try:
            p.dataReceived(c)
            if t.lost > lost_before:
                dead = "Disconnect"
                exp.append("Disconnect " + summary())
            else:
                exp.append(summary())
        except Exception as e:
            dead = type(e).__name__
            exp.append(dead + " " + summary())
        if dead:
            dead_at = ci
        if not selected:
            delivered_before_select = max(delivered_before_select, len(got))

    for ci, c in enumerate(chunks):
        if ci in early:
            continue
        deliver(ci, c)
        if eager and paused and not dead:
            # pause is advisory for bytes the transport has already read: the next chunk is handed over WHILE the
            # connection is paused, and the one after it synchronously from inside transport.resumeProducing()
            tags.append("conn:eager-transport")
            if ci + 1 < len(chunks):
                early.add(ci + 1)
                deliver(ci + 1, chunks[ci + 1])
            if ci + 2 < len(chunks) and not dead:
                early.add(ci + 2)
                t.on_resume = (lambda j=ci + 2: deliver(j, chunks[j]))
        do_resume()
        if not dead and not selected and conn.add_candidate.called:
            nsel += 1
            if nsel > case["select_after"] and not lose:
                do_select()
    if not dead and not selected and conn.add_candidate.called:
        do_select()
    if pause_at:
        tags.append("conn:consumer-pauses")
    if lose:
        tags.append("conn:lost-before-select")
    if dead:
        tags.append("dead:" + dead)
    if any(len(pc[1]) > MAXP + 100 for pc in honest_pieces):
        tags.append("multi-packet")
    # ---- oracle: the property on the real run
    viol = []
    sent = [show_rec(r) for r in recs[1:]]
    delivered = [show_rec(r) for r in got]

    def brief(rs):
        return [x if len(x) <= 48 else x[:40] + f"…({len(x)} chars)" for x in rs[:4]]
    for r, sd in zip(intended, sends):
        if not isinstance(sd, bytes):
            # every record the harness hands over is well-formed (32-bit fields, 4-byte ping ids, str names)
            viol.append(("lossless", f"{brief([show_rec(r)])[0]} could not be handed to the L2 connection: "
                         f"send_record raised {sd}; the peer never recovers it"))
            break
    if select_error:
        viol.append(("select-raised", f"select() after add_candidate raised {select_error[0]}"))
    if delivered_before_select:
        viol.append(("delivered-before-select", f"{delivered_before_select} records reached the manager before select()"))
    if mut is None:
        if delivered != sent or dead:
            viol.append(("lossless", f"honest stream: sent {brief(sent)}… delivered {brief(delivered)}… dead={dead}"))
        if not conn.add_candidate.called or p._record._framer._buffer:
            viol.append(("lossless", "honest stream: not a candidate / bytes left in the buffer"))
    else:
        # records whose frames arrived intact before the first manipulated piece
        intact = max(0, (first_bad_piece if first_bad_piece is not None else len(pieces)) - kcm_piece - 1)
        if delivered != sent[:len(delivered)]:
            viol.append(("manipulated-delivered", f"mut={mut} delivered {brief(delivered)} not a prefix of {brief(sent)}"))
        elif len(delivered) > intact:
            viol.append(("manipulated-delivered", f"mut={mut} delivered {brief(delivered)} beyond intact prefix {intact} of {brief(sent)}"))
        if mut == "trunc" and not dead:
            # a cut honest stream: exactly the records that arrived completely, and no failure
            want = sent[:intact] if first_bad_piece > kcm_piece else []
            if delivered != want:
                viol.append(("lossless", f"truncated at piece {first_bad_piece}: delivered {brief(delivered)} expected {brief(want)}"))
        if mut == "trunc" and dead:
            viol.append(("lossless", f"truncated honest stream raised {dead}"))
        if must_drop and not dead:
            viol.append(("not-dropped", f"mut={mut} at piece {first_bad_piece}: connection was not dropped"))
        if first_bad_piece is not None and first_bad_piece <= kcm_piece and mut not in ("trunc", "insert") and must_drop:
            # nothing keyed ever arrived intact: never a candidate, nothing queued or delivered
            if conn.add_candidate.called or got or p._inbound_record_queue:
                viol.append(("unkeyed-accepted", f"mut={mut} at piece {first_bad_piece}: candidate={conn.add_candidate.called} "
                             f"queued={len(p._inbound_record_queue)} delivered={len(got)}"))
    # wrong relay reply / wrong prologue: dropped exactly when |expected| bytes or a newline of a
    # diverging start have arrived — not later, not earlier — and nothing was processed
    rej = first_reject_chunk(chunks, ([b"ok\n"] if case["relay"] else []) + [inbound])
    if rej is not None:
        tags.append("start-reject")
        if dead != "Disconnect" or dead_at != rej:
            viol.append(("start-reject", f"mut={mut}: diverging start must be dropped at chunk {rej}, got dead={dead} at {dead_at}"))
        if conn.add_candidate.called or got or p._inbound_record_queue or automat_state(p._record, 'n').startswith("want_handshake") \
                or automat_state(p._record, 'n') == "want_message":
            viol.append(("start-reject", f"mut={mut}: something was processed on a connection with a diverging start"))
    elif dead_at is not None and automat_state(p._record._framer, 'm') != "want_frame":
        viol.append(("start-reject", f"mut={mut}: dropped at chunk {dead_at} although the start had not (yet) diverged"))
    if eager:
        # judged by the oracle only: a delivery nested inside `resume` has no counterpart in the line protocol
        return Result([], [], viol, tags)
    return Result(lines, exp, viol, tags)


def rand_framer_case(rng):
    pro = rng.choice([b"PRO\n\n", b"Magic-Wormhole Dilation Handshake v1 Leader\n\n", b"x", b"ab\ncd\n"])
    relay = rng.random() < 0.4
    frames = [bytes(rng.randrange(256) for _ in range(rng.choice([0, 1, 3, 4, 5, 17, 300]))) for _ in range(rng.randrange(0, 4))]
    stream = (b"ok\n" if relay else b"") + pro + b"".join(frame(f) for f in frames)
    m = rng.choice(["none", "none", "flip", "trunc", "junk", "extra"])
    if m == "flip" and stream:
        pos = rng.randrange(min(len(stream), len(pro) + 8))
        stream = stream[:pos] + bytes([stream[pos] ^ (1 << rng.randrange(8))]) + stream[pos + 1:]
    elif m == "trunc":
        stream = stream[:rng.randrange(len(stream) + 1)]
    elif m == "junk":
        stream = bytes(rng.choice([10, 111, 107, 80, 82, 79, 0, 255]) for _ in range(rng.randrange(1, 12))) + stream
    elif m == "extra":
        stream = stream + bytes(rng.randrange(256) for _ in range(rng.randrange(1, 6)))
    cuts = sorted(rng.randrange(len(stream) + 1) for _ in range(rng.choice([0, 1, 2, 5, 30])))
    chunks, prev = [], 0
    for c in cuts + [len(stream)]:
        chunks.append(stream[prev:c])
        prev = c
    if rng.random() < 0.5:
        chunks = [c for c in chunks if c]
    return dict(kind="framer", relay=relay, pro=pro.hex(), chunks=[c.hex() for c in chunks], m=m)


def _drive_framer(relay, pro, chunks):
    """list(add_and_parse(chunk)) for each chunk on a real `_Framer`; the generator is consumed by
    hand so that the tokens yielded before a Disconnect are kept"""
    fr = dc._Framer(FakeTransport(), b"OUT\n\n", pro)
    if relay:
        fr.use_relay(b"please relay\n")
    out, toks_all, err = [], [], None
    for c in chunks:
        if err:
            out.append("dead")
            continue
        toks = []
        g = fr.add_and_parse(c)
        try:
            for tok in g:
                toks.append("prologue" if isinstance(tok, dc.Prologue) else
                            "relayok" if isinstance(tok, dc.RelayOK) else "frame:" + hx(tok.frame))
        except Exception as e:
            err = type(e).__name__
        toks_all += toks
        out.append(f"{','.join(toks) if toks else '-'} {err or 'ok'} {automat_state(fr, 'm')} buf={len(fr._buffer)}")
    return out, toks_all, err, automat_state(fr, 'm'), len(fr._buffer)


def run_framer(case):
    pro = bytes.fromhex(case["pro"])
    chunks = [bytes.fromhex(c) for c in case["chunks"]]
    lines = [f"fnew {1 if case['relay'] else 0} {hx(pro)}"] + ["fdata " + hx(c) for c in chunks]
    out, toks, err, st, blen = _drive_framer(case["relay"], pro, chunks)
    viol = []
    tags = ["framer:" + case["m"], "framer:" + (err or "ok")]
    if chunks:
        # framer_chunking_invariant on the real code: same tokens / outcome as one call with everything
        _, toks1, err1, st1, blen1 = _drive_framer(case["relay"], pro, [b"".join(chunks)])
        if toks != toks1 or err != err1 or st != st1 or (err is None and blen != blen1):
            viol.append(("chunking", f"chunked: {toks} {err} {st} buf={blen}; at once: {toks1} {err1} {st1} buf={blen1}"))
    rej = first_reject_chunk(chunks, ([b"ok\n"] if case["relay"] else []) + [pro])
    if rej is not None:
        tags.append("start-reject")
        if err != "Disconnect" or " Disconnect " not in out[rej] or toks:
            viol.append(("start-reject", f"diverging start must raise Disconnect at chunk {rej} with no token: {out}"))
    elif err is not None:
        viol.append(("start-reject", f"framer raised {err} although the start never diverged"))
    return Result(lines, ["ok"] + out, viol, tags)


# ---------------------------------------------------------------------------
# the selection path: two real Connectors (one per role) with real DilatedConnectionProtocols, joined by
# in-memory pipes; the managers are stand-ins that, like Manager.connector_connection_made ->
# Outbound.use_connection -> resumeProducing, write every queued (un-acked) record as soon as they are
# given the connection.  `Connector.add_candidate -> consider -> (eventual turn) -> accept ->
# select_and_stop_remaining` runs for real on both sides, for the first and for later generations.

class SessionNoise(ToyNoise):
    """ToyNoise with the session state of a real Noise object: `start_handshake()` begins a NEW session
    (handshake progress and both nonces are reset, as NoiseConnection.start_handshake re-initialises the
    HandshakeState), messages may only be written/read in the order of the NN pattern, and the transport
    cipher exists only once the handshake is complete.  Used one-object-per-protocol (as build_protocol does)
    it behaves exactly like ToyNoise; sharing one object between two protocols breaks the earlier session."""

    def __init__(self):
        ToyNoise.__init__(self)
        self.initiator = None
        self.started = self.wrote = self.read = False

    def start_handshake(self):
        self.started, self.wrote, self.read = True, False, False
        self.tx = self.rx = 0

    def write_message(self):
        from wormhole._dilation._noise import NoiseHandshakeError
        if not self.started or self.wrote or (self.initiator is False and not self.read):
            raise NoiseHandshakeError("write_message out of turn")
        self.wrote = True
        return self.HS

    def read_message(self, frame_):
        from wormhole._dilation._noise import NoiseHandshakeError, NoiseInvalidMessage
        if not self.started or self.read or (self.initiator is True and not self.wrote):
            raise NoiseHandshakeError("read_message out of turn")
        if frame_ != self.HS:
            raise NoiseInvalidMessage("bad handshake")
        self.read = True
        return b""

    def encrypt(self, m):
        from wormhole._dilation._noise import NoiseHandshakeError
        if not (self.wrote and self.read):
            raise NoiseHandshakeError("no transport cipher: handshake not complete")
        return ToyNoise.encrypt(self, m)

    def decrypt(self, c):
        from wormhole._dilation._noise import NoiseInvalidMessage
        if not (self.wrote and self.read):
            raise NoiseInvalidMessage("no transport cipher: handshake not complete")
        return ToyNoise.decrypt(self, c)


class PausableTransport(FakeTransport):
    """FakeTransport + the IPushProducer half of a TCP transport: while paused it reads nothing (the harness
    keeps the bytes in flight)"""

    def __init__(self):
        FakeTransport.__init__(self)
        self.paused = False
        self.pauses = 0

    def pauseProducing(self):
        self.paused = True
        self.pauses += 1

    on_resume = None

    def resumeProducing(self):
        self.paused = False
        f, self.on_resume = self.on_resume, None
        if f is not None:
            f()          # bytes that were waiting are delivered from inside resumeProducing(), as some transports do

    def stopProducing(self):
        self.paused = True


class _SelSide:
    """one peer in one generation: a real Connector and the manager stand-in"""

    def __init__(self, role, clock, gen, queued):
        from wormhole._dilation import connector as dco
        from wormhole.eventual import EventualQueue
        self.role = role
        self.leader = role is LEADER
        self.name = "leader" if self.leader else "follower"
        self.eq = EventualQueue(clock)
        self.queued = queued                  # records waiting for a connection
        self.got = []                         # manager.got_record calls
        self.conn = None                      # set by connector_connection_made
        self.ends = []
        self.mgr = mock.Mock()
        alsoProvides(self.mgr, IDilationManager)
        self.mgr.got_record = self._got_record
        self.mgr.connector_connection_made = self._connection_made
        self.pause_at = set()                 # after how many records the consumer pauses the connection
        self.paused = False
        self.connector = dco.Connector(b"k" * 32, None, self.mgr, clock, self.eq, True, None, None,
                                       ("%016x" % (gen * 2 + (1 if self.leader else 0))), role)

    def _connection_made(self, c):
        self.conn = c
        for r in self.queued:                 # Outbound.use_connection: re-send everything un-acked, at once
            c.send_record(r)

    def _got_record(self, r):
        self.got.append(r)
        # a slow subchannel consumer: Inbound.subchannel_pauseProducing -> connection.pauseProducing(), called from
        # inside the delivery of a record (Inbound only knows the connection once connector_connection_made ran)
        if len(self.got) in self.pause_at and self.conn is not None and not self.paused:
            self.paused = True
            self.conn.pauseProducing()

    def resume(self):
        """Inbound.subchannel_resumeProducing -> connection.resumeProducing()"""
        self.paused = False
        w = self.winner()
        try:
            self.conn.resumeProducing()
        except Exception as e:
            if w is not None:
                w.dead = type(e).__name__
        if w is not None:
            w.events.append(("resume", None, (w.dead + " " if w.dead else "") + w.summary()))

    def winner(self):
        for e in self.ends:
            if e.p is self.conn:
                return e
        return None

    def turn(self):
        before = [(e, automat_state(e.p, 'm')) for e in self.ends if e.started]
        self.eq.flush_sync()
        for e, st in before:
            if st != "selected" and automat_state(e.p, 'm') == "selected":
                e.events.append(("select", None, e.summary()))


class _SelEnd:
    """one end of one candidate connection, built the way the Connector's factories build it"""

    def __init__(self, side, link_no, relay, outbound, start):
        from wormhole._dilation import connector as dco
        from twisted.internet.address import IPv4Address
        self.side, self.link_no, self.relay, self.start_tick = side, link_no, relay, start
        addr = IPv4Address("TCP", "10.0.0.%d" % (link_no + 1), 4000 + link_no)
        if relay:
            hs = dco.build_sided_relay_handshake(side.connector._dilation_key, side.connector._side)
            self.p = dco.OutboundConnectionFactory(side.connector, hs, "relay%d" % link_no).buildProtocol(addr)
        elif outbound:
            self.p = dco.OutboundConnectionFactory(side.connector, None, "direct%d" % link_no).buildProtocol(addr)
        else:
            self.p = dco.InboundConnectionFactory(side.connector).buildProtocol(addr)
        self.outbound = relay or outbound
        self.t = PausableTransport()
        self.p.transport = self.t
        self.taken = 0                        # how many of t.written have been moved on
        self.inbox = []                       # chunks on their way to this end
        self.rx_bytes = 0                     # bytes of the peer end's writes that dataReceived has been given
        self.end_off = []                     # per handed record: offset (in this end's writes) at which it ends
        self.handed, self.wire, self.events = [], [], []
        self.started = False
        self.dead = None
        self.closed = False
        self.cut_done = False
        side.ends.append(self)

    def start(self):
        self.started = True
        if self.outbound:                     # what Connector._connect's callback does with a new outbound protocol
            pc = self.side.connector._pending_connections
            pc.add(self.p)
            self.p.when_disconnected().addCallback(pc.discard)
        try:
            self.p.connectionMade()
        except Exception as e:
            self.dead = type(e).__name__
            self.events.append(("made", None, self.dead))
            return
        rec = self.p._record
        orig = rec.send_record

        def logged(r):
            self.handed.append(r)
            n0 = len(self.t.written)
            try:
                orig(r)
                self.wire.append(b"".join(self.t.written[n0:]))
            except Exception as e:
                self.wire.append(type(e).__name__)
                raise
            finally:
                self.end_off.append(sum(len(w) for w in self.t.written[(1 if self.relay else 0):]))
        rec.send_record = logged

    def summary(self):
        p, t = self.p, self.t
        fr = p._record._framer
        hs = frame(b"hs") in t.written
        kcm = (not self.side.leader) and frame(b"\x00" + bytes([1]) * 16) in t.written
        st = automat_state(p, 'm')
        got = self.side.got if self.side.connector._winning_connection is p else []
        return (f"{automat_state(fr, 'm')} {automat_state(p._record, 'n')} {st} buf={len(fr._buffer)} "
                f"hs={'true' if hs else 'false'} kcm={'true' if kcm else 'false'} cand={'false' if st == 'unselected' else 'true'} "
                f"queued={len(p._inbound_record_queue)} mgr=[{'; '.join(show_rec(r) for r in got)}]")

    def receive(self, chunk, from_peer=True):
        lost_before = self.t.lost
        if from_peer:
            self.rx_bytes += len(chunk)
        try:
            self.p.dataReceived(chunk)
            if self.t.lost > lost_before:
                self.dead = "Disconnect"
        except Exception as e:               # Twisted drops a connection whose dataReceived raises
            self.dead = type(e).__name__
        self.events.append(("data", chunk, (self.dead + " " if self.dead else "") + self.summary()))


def run_sel(case):
    import random
    from twisted.internet.task import Clock
    from wormhole._dilation import connector as dco
    from wormhole._dilation.connector import PROLOGUE_LEADER, PROLOGUE_FOLLOWER
    rng = random.Random(case["mseed"])
    lines, exp, viol, tags = [], [], [], ["sel:gens=%d" % len(case["gens"])]

    def brief(rs):
        return [x if len(x) <= 48 else x[:40] + f"…({len(x)} chars)" for x in rs[:6]]

    def split(data):
        out, i = [], 0
        floor = len(data) // 150          # at most ~150 reads per burst, however small the chunk sizes
        while i < len(data):
            n = max(rng.choice(case["chunks"]), floor)
            out.append(data[i:i + n])
            i += n
        return out

    with mock.patch.object(dco, "build_noise", SessionNoise):
        for gi, g in enumerate(case["gens"]):
            # one reactor per peer: flushing one side's eventual queue must not run the other side's turn
            L = _SelSide(LEADER, Clock(), gi, [mk_rec(expand_rec(sp)) for sp in g["lq"]])
            F = _SelSide(FOLLOWER, Clock(), gi, [mk_rec(expand_rec(sp)) for sp in g["fq"]])
            # candidate connections: (leader end, follower end); a direct link is dialled by one side and
            # accepted by the other's listener, a relay link is dialled by both
            links = []
            for k, ld in enumerate(g.get("links") or [dict(relay=False, dial="L", start=[0, 0])]):
                links.append((_SelEnd(L, k, ld["relay"], ld["dial"] == "L", ld["start"][0]),
                              _SelEnd(F, k, ld["relay"], ld["dial"] == "F", ld["start"][1])))
            tags.append("sel:cands=%d" % len(links))
            if any(ld["relay"] for ld in g.get("links") or []):
                tags.append("sel:relay")
            tick = [0]
            relay_ok_sent = set()
            for X, key in ((L, "lpause"), (F, "fpause")):
                X.pause_at = set(g.get(key) or [])
            if g.get("lpause") or g.get("fpause"):
                tags.append("sel:consumer-pauses")
            # the TCP connection of one candidate ends right after the read(s) that brought the KCM — before the
            # Connector's eventual `accept` turn has run on that side
            cut = g.get("cut")
            cut_end = None
            if cut:
                tags.append("sel:lost-before-accept")
                cut_end = links[cut["link"]][0 if cut["side"] == "L" else 1]
            holding = set()                   # sides whose eventual turn has not come yet

            def close(k):
                for e in links[k]:
                    if e.started and not e.closed:
                        e.closed = True
                        try:
                            e.p.connectionLost(None)
                            if hasattr(e.p, "_record"):
                                e.events.append(("lost", None, e.summary()))
                        except Exception as ex:
                            e.events.append(("lost", None, type(ex).__name__))
                    e.closed = True
                    e.inbox = []

            def collect():
                moved = False
                for k, (a, b) in enumerate(links):
                    if a.closed:
                        continue
                    for X, Y in ((a, b), (b, a)):
                        if X.relay and X.taken == 0 and X.t.written:
                            X.taken = 1               # "please relay … for side …": consumed by the relay
                        data = b"".join(X.t.written[X.taken:])
                        X.taken = len(X.t.written)
                        if data:
                            Y.inbox.extend((c, True) for c in split(data))
                            moved = True
                    if a.relay and a.started and b.started and k not in relay_ok_sent:
                        relay_ok_sent.add(k)          # the relay pairs the two sides up
                        a.inbox.insert(0, (b"ok\n", False))
                        b.inbox.insert(0, (b"ok\n", False))
                        moved = True
                return moved

            def run_until_quiet():
                last_start = max(e.start_tick for lk in links for e in lk)
                idle = 0
                while idle < 2 or tick[0] <= last_start:
                    for lk in links:
                        for e in lk:
                            if not e.started and not e.closed and e.start_tick <= tick[0]:
                                e.start()
                    progressed = collect()
                    ready = [e for lk in links for e in lk if e.inbox and e.started and not e.closed and not e.t.paused]
                    if ready:
                        e = ready[tick[0] % len(ready)]
                        was = automat_state(e.p, 'm')
                        e.receive(*e.inbox.pop(0))
                        progressed = True
                        if e is cut_end and not e.cut_done and was == "unselected" and automat_state(e.p, 'm') != "unselected":
                            # same reactor iteration: `extra` more reads, then end-of-stream, and only then the turn
                            e.cut_done = True
                            for _ in range(cut["extra"]):
                                collect()
                                if e.inbox and not e.dead:
                                    e.receive(*e.inbox.pop(0))
                            collect()
                            close(cut["link"])
                        if case["turn_each_chunk"] or not any(x.inbox for lk in links for x in lk):
                            L.turn()
                            F.turn()
                    else:
                        L.turn()
                        F.turn()
                    for k, (a, b) in enumerate(links):
                        if not a.closed and (a.dead or b.dead or a.t.lost or b.t.lost):
                            collect()                 # what was written before the close still travels
                            close(k)
                            L.turn()
                            F.turn()
                            progressed = True
                    progressed = collect() or progressed
                    idle = 0 if progressed else idle + 1
                    tick[0] += 1

            def settle():
                # run until nothing moves; a consumer that paused the connection resumes it once things are quiet
                run_until_quiet()
                for _ in range(12):
                    again = [X for X in (L, F) if X.paused]
                    if not again:
                        break
                    for X in again:
                        X.resume()
                    run_until_quiet()

            settle()
            # records written once the connection is in use
            for X, later in ((L, g["ll"]), (F, g["fl"])):
                for sp in later:
                    w = X.winner()
                    if w is not None and not w.dead and not w.closed:
                        try:
                            X.conn.send_record(mk_rec(expand_rec(sp)))
                        except Exception:
                            pass               # recorded in the end's `wire`; judged below
            settle()
            if L.queued:
                tags.append("sel:leader-backlog")
            if F.queued:
                tags.append("sel:follower-backlog")
            # ---- model lines: every end of every candidate is one receiving connection fed by its peer end
            for a, b in links:
                for X, Y in ((a, b), (b, a)):
                    inbound = PROLOGUE_LEADER if X.side.leader else PROLOGUE_FOLLOWER
                    lines.append(f"new {1 if Y.relay else 0} {1 if Y.side.leader else 0} {hx(inbound)}")
                    exp.append("ok")
                    for r, w in zip(X.handed, X.wire):
                        lines.append("send " + show_rec(r))
                        exp.append(hx(w) if isinstance(w, bytes) else w)
                    for kind, chunk, summ in Y.events:
                        if kind == "made":
                            continue
                        lines.append(kind if kind in ("select", "lost", "resume") else "data " + hx(chunk))
                        exp.append(summ)
            # ---- oracle: every record handed to an L2 connection is recovered identically by the peer
            lw, fw = L.winner(), F.winner()
            # (a) whatever else happens (pauses, the connection ending early): a side that selected a connection has
            # been given exactly the records that arrived on it completely, in order — nothing received is withheld
            for Y, yw in ((L, lw), (F, fw)):
                if yw is None or (yw.dead and yw.dead != "Disconnect"):
                    continue
                xe = links[yw.link_no][1 if Y.leader else 0]
                arrived = [show_rec(r) for r, off, w in zip(xe.handed, xe.end_off, xe.wire)
                           if isinstance(w, bytes) and off <= yw.rx_bytes and not isinstance(r, KCM)]
                gotp = [show_rec(r) for r in Y.got]
                if not yw.dead and gotp != arrived:
                    viol.append(("lossless", f"generation {gi + 1}: the {Y.name} selected candidate {yw.link_no} and received "
                                 f"{len(arrived)} complete records {brief(arrived)} on it, but its manager was given "
                                 f"{len(gotp)}: {brief(gotp)}"
                                 + (" (the consumer paused and resumed the connection)" if Y.pause_at else "")
                                 + (" (the connection ended before the accept turn)" if cut and yw is cut_end else "")))
            for X, Y, xw, yw in ((L, F, lw, fw), (F, L, fw, lw)):
                if cut or viol:
                    break                       # a deliberately cut generation is judged by (a) alone
                xn, yn = X.name, Y.name
                want = [show_rec(mk_rec(expand_rec(sp))) for sp in (g["lq"] + g["ll"] if X.leader else g["fq"] + g["fl"])]
                handed = [show_rec(r) for r in xw.handed if not isinstance(r, KCM)] if xw else []
                gotp = [show_rec(r) for r in Y.got]
                where = f"generation {gi + 1}, {xn}->{yn}"
                if xw is None:
                    why = "; ".join(f"candidate {e.link_no}: {e.dead or ('closed' if e.closed else 'open')}" for e in X.ends)
                    viol.append(("lossless", f"{where}: honest peers, but the {xn}'s connector never got a connection ({why})"))
                elif xw.dead or xw.closed or yw is None or yw.dead or yw.closed or yw.link_no != xw.link_no:
                    peer_end = next((e for e in Y.ends if e.link_no == xw.link_no), None)
                    bad = next((e for e in (xw, peer_end, yw) if e is not None and e.dead), xw if xw.closed else yw)
                    viol.append(("lossless", f"{where}: honest peers, the {xn} selected candidate {xw.link_no}, but "
                                 + (f"the {bad.side.name}'s end of it was dropped ({bad.dead or 'closed'})" if bad is not None and
                                    (bad.dead or bad.closed) else f"the {yn} selected {'none' if yw is None else yw.link_no}")
                                 + f"; handed {brief(handed)} delivered {brief(gotp)}"))
                elif handed != want or any(not isinstance(w, bytes) for w in xw.wire):
                    viol.append(("lossless", f"{where}: records {brief(want)} could not all be handed to the connection: {brief(handed)}"))
                elif gotp != handed:
                    viol.append(("lossless", f"{where}: handed {brief(handed)} but the {yn}'s manager got {brief(gotp)}"))
                elif [i for i, r in enumerate(xw.handed) if isinstance(r, KCM)] != [0]:
                    viol.append(("lossless", f"{where}: the {xn} did not confirm the connection with exactly one KCM, first: "
                                 f"{brief([show_rec(r) for r in xw.handed])}"))
            # the connection is lost; managers would start the next generation
            for k in range(len(links)):
                close(k)
            for X in (L, F):
                try:
                    X.eq.flush_sync()
                except Exception:
                    pass
            if viol:
                break
    return Result(lines, exp, viol, tags)


def rand_sel_case(rng):
    seq = [0, 0]

    def recs(side, n, big=False):
        out = []
        for _ in range(n):
            k = rng.choice(["open", "data", "data", "close"])
            sn = seq[side]
            seq[side] += 1
            scid = rng.choice([1, 2, 3, 2**32 - 1])
            if k == "open":
                out.append(["open", sn, scid, rng.choice(["", "70726f746f", "c3a9"] + [x.encode("utf8").hex() for x in NON_NFC])])
            elif k == "data":
                pay = "%%BIG%%%d" % (rng.choice(SIZES[3:9]) - 9) if big and rng.random() < 0.3 else \
                    bytes(rng.randrange(256) for _ in range(rng.choice([0, 1, 5, 40]))).hex()
                out.append(["data", sn, scid, pay])
            else:
                out.append(["close", sn, scid])
        return out
    gens = []
    for gi in range(rng.choice([1, 2, 2, 3])):
        links = [dict(relay=rng.random() < 0.3, dial=rng.choice("LF"), start=[rng.randrange(0, 8), rng.randrange(0, 8)])
                 for _ in range(rng.choice([1, 1, 2, 2, 3]))]
        first = rng.randrange(len(links))
        links[first]["start"] = [0, rng.choice([0, 0, 1])]
        gens.append(dict(links=links, lq=recs(0, rng.choice([0, 0, 1, 2, 4]), big=True), fq=recs(1, rng.choice([0, 0, 1, 3])),
                         ll=recs(0, rng.choice([0, 1, 3])) + ([["ack", rng.choice(BOUND32)]] if rng.random() < 0.3 else []),
                         fl=recs(1, rng.choice([0, 1, 2])) + ([["ping", "01020304"]] if rng.random() < 0.3 else [])))
        r8 = rng.random()
        if r8 < 0.25:                         # a slow consumer on one or both sides
            gens[-1]["fpause"] = sorted({rng.randrange(1, 6) for _ in range(rng.choice([1, 1, 2]))})
            if rng.random() < 0.4:
                gens[-1]["lpause"] = [rng.randrange(1, 5)]
        elif r8 < 0.4:                        # the selected-to-be connection ends before the accept turn
            gens[-1]["cut"] = dict(side=rng.choice("FFL"), link=first, extra=rng.choice([0, 0, 1, 2, 5]))
        if rng.random() < 0.5:                # a keepalive exchange: one side pings, the other answers with the same id
            tid = rng.choice(TWIN_IDS)
            a, b = rng.choice([("ll", "fl"), ("fl", "ll")])
            gens[-1][a] = gens[-1][a] + [["ping", tid]]
            gens[-1][b] = gens[-1][b] + [["pong", tid]]
    return dict(kind="sel", gens=gens, chunks=rng.choice([[1], [10**6], [1, 2, 3, 7, 50], [5, 1000, 70000], [17]]),
                turn_each_chunk=rng.random() < 0.5, mseed=rng.randrange(10**6))


def search(rng, seconds, seeds):
    import time
    t0 = time.time()
    for c in seeds:
        yield c, run_case(c)
    while time.time() - t0 < seconds:
        for c in cases(rng, "quick"):
            yield c, run_case(c)
            if time.time() - t0 > seconds:
                return


def shrink(case):
    if case.get("kind") == "seq":
        subs = case["cases"]
        for i in range(len(subs)):
            if len(subs) > 1:
                yield dict(case, cases=subs[:i] + subs[i + 1:])
        for i, sub in enumerate(subs):
            for sub2 in shrink(sub):
                yield dict(case, cases=subs[:i] + [sub2] + subs[i + 1:])
        return
    if case.get("kind") == "codecseq":
        for i in range(len(case["recs"])):
            yield dict(case, recs=case["recs"][:i] + case["recs"][i + 1:])
    if case.get("kind") == "sel":
        gens = case["gens"]
        for i in range(len(gens)):
            if len(gens) > 1:
                yield dict(case, gens=gens[:i] + gens[i + 1:])
        for i, g in enumerate(gens):
            for key in ("fpause", "lpause", "cut"):
                if g.get(key):
                    yield dict(case, gens=gens[:i] + [{k: v for k, v in g.items() if k != key}] + gens[i + 1:])
        for i, g in enumerate(gens):
            lk = g.get("links") or []
            for j in range(len(lk)):
                if len(lk) > 1:
                    yield dict(case, gens=gens[:i] + [dict(g, links=lk[:j] + lk[j + 1:])] + gens[i + 1:])
        for i, g in enumerate(gens):
            for key in ("ll", "fl", "fq", "lq"):
                for j in range(len(g[key])):
                    g2 = dict(g)
                    g2[key] = g[key][:j] + g[key][j + 1:]
                    yield dict(case, gens=gens[:i] + [g2] + gens[i + 1:])
        if case["chunks"] != [10**6]:
            yield dict(case, chunks=[10**6])
    if case.get("kind") == "conn":
        for key in ("pause_at", "lose"):
            if case.get(key):
                yield {k: v for k, v in case.items() if k != key}
        recs = case["recs"]
        for i in range(len(recs)):
            c = dict(case)
            c["recs"] = recs[:i] + recs[i + 1:]
            yield c
        if case["chunk"] != "all":
            c = dict(case)
            c["chunk"] = "all"
            yield c
