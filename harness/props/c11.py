"""C11 — Dilation peers agree on roles, use one connection at a time, re-converge.

Two REAL sides, each a real `Dilator` -> `Manager` -> `Connector` -> `DilatedConnectionProtocol`s, in
one process.  Faked inside this process only: ISend (the mailbox: what each side sent as `dilate-N`,
delivery scheduled by the case and handed to the REAL `Boss.D_received_dilate` body on a stub Boss),
`connector.build_noise` (ToyNoise), `serverFromString` / `endpoint_from_hint_obj` (in-memory listeners
and links whose bytes the case delivers token by token in seeded chunkings and whose ends the case
kills), the reactor (`StepClock`: delayed calls are run one at a time by the case) and one real
`EventualQueue` per side whose turns the case schedules.
"""
import gc
import json
import random
import time
from unittest import mock

from zope.interface import implementer, alsoProvides
from twisted.internet import task, defer
from twisted.internet.address import IPv4Address
from twisted.internet.error import ConnectionRefusedError, ConnectionDone, TimeoutError as ConnectTimeoutError
from twisted.internet.interfaces import ITransport, IConsumer
from twisted.internet.task import Cooperator
from twisted.python import failure

from wormhole._boss import Boss
from wormhole._dilation import connector as dconn
from wormhole._dilation import manager as dman
from wormhole._dilation.roles import LEADER, FOLLOWER
from wormhole._interfaces import ISend, ITerminator
from wormhole.eventual import EventualQueue

from .. import LOGGED
from ..core import Result
from ..fakes import ToyNoise
from ..util import automat_state

# the plain function behind the Automat output `Boss.D_received_dilate` (the strict-order buffer)
D_RECEIVED_DILATE = Boss.__dict__["D_received_dilate"].method

ID = "C11"
PROP_MODULES = ["WV.Props.C11"]
# [deepConn] translation validation of the Connector's method bodies (tools/extract.py::extract_pyir_conn ->
# WV/Gen/PyIRConn.lean, interpreter WV/Model/PyIR.lean): part of the check as soon as the module is installed
import os as _os_conn
if _os_conn.path.exists(_os_conn.path.join(_os_conn.path.dirname(_os_conn.path.dirname(_os_conn.path.dirname(
        _os_conn.path.abspath(__file__)))), "lean", "WV", "Props", "PyIRConn_C11.lean")):
    PROP_MODULES.append("WV.Props.PyIRConn_C11")
NATIVE_DECIDE_MODULES = ["WV.Proofs.C11Cert"]
TRUSTED = [
    "native_decide on the finite certificates in WV.Proofs.C11Cert (closed-and-safe reachable set of the two-sided control "
    "abstraction with at most 2 simultaneously existing links, and the backward fixpoint for reconverge_no_trap): adds "
    "Lean.ofReduceBool/Lean.trustCompiler, i.e. the Lean compiler, to the theorems that use them; everything else is kernel-only",
    "the environment model WV.C11.enabled: versions reach a side before any dilate-N (Boss only forwards dilate-N in S2_happy), "
    "key before versions, each side calls dilate() at most once (Once guard), no Manager.stop() (C17), honest peers",
    "links at token level: prologue/handshake/KCM are delivered as complete tokens (byte-level framing and the Noise handshake "
    "are C12's subject; the harness delivers every token in seeded chunkings down to single bytes); a link end that called "
    "loseConnection receives nothing more; data already written is still deliverable to the other end until that end is lost",
    "Noise NNpsk0 (noiseprotocol is not installed): ToyNoise in the harness; a KCM can only come from the peer (C12)",
    "TrafficTimer/ping timer are not advanced (C16); its disconnect is exercised by calling Manager._signal_reconnect directly",
    "listener readiness is synchronous (as Twisted's TCP4ServerEndpoint.listen), one direct hint per listener, no relay, no Tor",
    "silent loss = a direction of a link stops delivering for good and neither end is told; ping intervals elapse on the side's "
    "task.Clock and fire the REAL DelayedCall the Manager scheduled (one at a time, chosen by the case); application data is "
    "Manager.send_open on the real Outbound/Inbound/SubChannel (held pending by the real SubchannelDemultiplex); the finite "
    "certificate with these features (absS) allows one link at a time and one record per side — the 2-link certificate (absK) "
    "has no records, timer expiry or silent loss; both are exercised together only by the differential runs",
    "the transit relay is an in-memory sided relay reachable by both sides (it joins two connections that present the same "
    "token, says ok to both and then only forwards); at most ONE side is configured with it; a connection closed while it "
    "waits at the relay is forgotten by the relay at once; the relay path counts for the proviso while both legs are possible "
    "(WV.C11.relayLeg), a leg through a hint from the moment the hint of that generation is sent; the relay certificate (absR) "
    "has no records / timer / silent loss and leaves out the networks where both sides can also dial directly",
    "a connection attempt has three stages: scheduled (deferLater pending), in flight (`ep.connect()` called: a cancellable "
    "Deferred, like TCP4ClientEndpoint's), answered (established / refused / timed out / joined at the relay) — the case decides "
    "when each happens; attempts are answered oldest first; the relay serves the longest-waiting matching connection first; "
    "`cut X` = the network changes and X's dialled connections stop getting through (allowed while another path remains and the "
    "last candidate in progress is spared); `cut` is not part of any certificate",
    "network reachability starts as: the set of sides whose DIALLED connections get through (both, only A, only B; "
    "an unreachable dial fails with ConnectError/TimeoutError); the proviso 'at least one attempt of the new generation may "
    "complete' = the network never drops the last VIABLE candidate, where fresh hints count from the moment they are sent "
    "(WV.C11.killOK / otherCandidates, mirrored by World.kill_ok)",
]
RULE = ("guided random schedules of the two-sided dilation world (profiles: plain, lossy, races, reorder, early-messages, "
        "equal-sides) over key/versions/dilate() timing, mailbox arrival order (through the real Boss.D_received_dilate), "
        "connection attempts, handshake progress in seeded chunkings, KCM deliveries, selection turns, loss of either end of any "
        "link, silent loss of either direction of any link, expiry of the leader's real ping DelayedCall, application records "
        "(real Outbound: un-acked records are re-sent on every new connection) and their Acks/Pings/Pongs delivered one by one, "
        "timer-style disconnects; every step compared with the Lean model (both Manager/Connector/DCP states, roles, "
        "Manager._connection, eventual queues, channels); every schedule runs in one of three networks (both sides can dial, only A, "
        "only B), 30% of them with a transit relay configured on one side (then also: nobody can dial directly), and must re-converge "
        "in all of them; thorough adds the exhaustive interleavings of one loss + reconnect (after "
        "selection on both sides, and while the follower is still CONNECTING) with both-way and leader-only dialling; "
        "non-trivial = a link was selected on at least one side; distinct = distinct canonical traces")


class StepClock(task.Clock):
    """task.Clock whose due calls are run one at a time, by the case"""

    def __init__(self):
        super().__init__()
        self.allzero = []          # DelayedCalls created with delay 0, in creation order, never pruned

    def callLater(self, delay, f, *a, **kw):
        dc = super().callLater(delay, f, *a, **kw)
        if delay == 0:
            self.allzero.append(dc)
        return dc

    def run(self, dc):
        self.calls.remove(dc)
        dc.called = 1
        dc.func(*dc.args, **dc.kw)


@implementer(ITransport, IConsumer)
class PipeEnd:
    """one end of an in-memory link"""

    def __init__(self, link, who):
        self.link = link
        self.who = who            # "A" / "B"
        self.status = "open"      # open | closing (loseConnection called here) | lost (connectionLost delivered)
        self.producer = None

    def write(self, data):
        if self.status == "open":
            self.link.buf[self.who] += bytes(data)

    def writeSequence(self, seq):
        for d in seq:
            self.write(d)

    def loseConnection(self):
        if self.status == "open":
            self.status = "closing"

    def registerProducer(self, p, streaming):
        self.producer = p

    def unregisterProducer(self):
        self.producer = None

    def pauseProducing(self):
        pass

    def resumeProducing(self):
        pass

    def stopProducing(self):
        pass

    def getPeer(self):
        return IPv4Address("TCP", "127.0.0.1", 1)

    def getHost(self):
        return IPv4Address("TCP", "127.0.0.1", 2)


class Link:
    def __init__(self, dialer):
        self.dialer = dialer                  # side name of the outbound end
        self.buf = {"A": b"", "B": b""}       # bytes written by that side and not yet delivered to the other
        self.ntok = {"A": 0, "B": 0}          # complete tokens of that side's stream already delivered
        self.sil = {"A": False, "B": False}   # silent loss: what that side writes is no longer delivered; nobody is told
        self.end = {}
        self.proto = {}
        self.relay = False                    # joined by the transit relay: both ends dialled


class RelayHalf(PipeEnd):
    """a connection to the transit relay that has sent its `please relay … for side …` line and waits there for the
    peer's; once the relay has joined the two it is an ordinary end of a Link"""

    def __init__(self, who):
        super().__init__(None, who)
        self.pre = b""

    def write(self, data):
        if self.link is None:
            self.pre += bytes(data)
        else:
            super().write(data)


RELAY_HOST = "relay.example"
RELAY_LOCATION = "tcp:%s:4001" % RELAY_HOST


class RelayEP:
    """the in-memory sided transit relay, reachable by both sides"""
    port = None

    def __init__(self, world, side):
        self.world, self.side = world, side

    def connect(self, factory):
        return InFlight(self, factory).d

    def complete(self, factory):
        """the TCP connection to the relay is established; the relay joins it with the peer's oldest waiting one"""
        w = self.world
        me = self.side.name
        other = "B" if me == "A" else "A"
        p = factory.buildProtocol(IPv4Address("TCP", "127.0.0.9", 4001))
        end = RelayHalf(me)
        p.makeConnection(end)                       # writes the sided relay handshake
        waiting = w.half(other)
        if waiting is not None:
            pp, pend = waiting
            assert end.pre.split(b" for side ")[0] == pend.pre.split(b" for side ")[0], "relay tokens differ"
            w.rwait[other].remove(waiting)
            link = Link(me)
            link.relay = True
            link.proto = {me: p, other: pp}
            link.end = {me: end, other: pend}
            end.link = pend.link = link
            w.place(link)
            pp.dataReceived(b"ok\n")                # the relay tells both that the peer is there
            p.dataReceived(b"ok\n")
        else:
            w.rwait[me].append((p, end))
        return p


class InFlight:
    """a connection attempt in flight: `ep.connect(factory)` was called, nothing has come back yet.  Its Deferred can be
    cancelled (as TCP4ClientEndpoint's: the attempt is aborted); the case decides when it is answered."""

    def __init__(self, ep, factory):
        self.ep, self.factory = ep, factory
        self.d = defer.Deferred(self._cancel)
        ep.side.inflight.append(self)

    def _cancel(self, d):
        if self in self.ep.side.inflight:
            self.ep.side.inflight.remove(self)

    def answer(self):
        self.ep.side.inflight.remove(self)
        r = self.ep.complete(self.factory)
        if isinstance(r, failure.Failure):
            self.d.errback(r)
        else:
            self.d.callback(r)


class Port:
    def __init__(self, side, factory, num):
        self.side, self.factory, self.num = side, factory, num
        self.open = True

    def getHost(self):
        return IPv4Address("TCP", "127.0.0.1", self.num)

    def stopListening(self):
        self.open = False
        return defer.succeed(None)


class ServerEP:
    def __init__(self, world, side):
        self.world, self.side = world, side

    def listen(self, factory):
        w = self.world
        w.nport += 1
        p = Port(self.side, factory, 10000 + w.nport)
        w.ports[p.num] = p
        self.side.ports.append(p)
        return defer.succeed(p)


class ClientEP:
    def __init__(self, world, side, port):
        self.world, self.side, self.port = world, side, port

    def connect(self, factory):
        return InFlight(self, factory).d

    def complete(self, factory):
        w = self.world
        port = w.ports.get(self.port)
        if not w.reach[self.side.name]:
            return failure.Failure(ConnectTimeoutError())      # the SYN never gets through
        if port is None or not port.open:
            return failure.Failure(ConnectionRefusedError())
        me = self.side.name
        other = port.side.name
        link = Link(me)
        addr = IPv4Address("TCP", "127.0.0.1", self.port)
        po = factory.buildProtocol(addr)
        pi = port.factory.buildProtocol(addr)
        link.proto = {me: po, other: pi}
        link.end = {me: PipeEnd(link, me), other: PipeEnd(link, other)}
        w.place(link)
        po.makeConnection(link.end[me])
        pi.makeConnection(link.end[other])
        return po


class BossStub:
    """carries exactly the attributes `Boss.D_received_dilate` uses"""

    def __init__(self, dilator):
        self._rx_dilate_seqnums = {}
        self._next_rx_dilate_seqnum = 0
        self._D = dilator


class Side:
    def __init__(self, world, name, sidestr):
        self.world, self.name, self.sidestr = world, name, sidestr
        self.rclock = StepClock()
        self.eqclock = StepClock()
        self.eq = EventualQueue(self.eqclock)
        self.coop = Cooperator(terminationPredicateFactory=lambda: (lambda: True), scheduler=self.eq.eventually)
        self.sent = []            # (phase, plaintext) in sending order
        self.sent_con = []
        self.arrived = set()      # indices into the PEER's `sent` already handed to our Boss stub
        self.ports = []
        self.endpoints = []       # ClientEPs in creation order (one per scheduled connection)
        self.inflight = []        # InFlight attempts, oldest first
        self.dilate_called = False
        outer = self

        @implementer(ISend)
        class _S:
            def send(self, phase, plaintext):
                outer.sent.append((phase, plaintext))
                outer.sent_con.append(outer.con)      # the Connector on whose behalf it was sent
        self.term = mock.Mock()
        alsoProvides(self.term, ITerminator)
        self.dilator = dman.Dilator(self.rclock, self.eq, self.coop, ["ged"])
        self.dilator.wire(_S(), self.term)
        self.boss = BossStub(self.dilator)

    @property
    def mgr(self):
        return self.dilator._manager

    @property
    def con(self):
        m = self.mgr
        return getattr(m, "_connector", None) if m is not None else None

    def pending_attempts(self):
        return [(dc, ep) for dc, ep in zip(self.rclock.allzero, self.endpoints) if dc.active()]

    def has_key(self):
        d, m = self.dilator, self.mgr
        return d._pending_dilation_key is not None or (m is not None and m._dilation_key is not None)

    def has_vers(self):
        d, m = self.dilator, self.mgr
        return d._pending_wormhole_versions is not None or (m is not None and automat_state(m) != "WAITING")


def phase_num(phase):
    return int(phase.split("-")[1])


class World:
    def __init__(self, sa, sb, reach="AB", relay=None):
        # the side (at most one) that is configured with a transit relay; the relay is reachable by both
        self.relay_cfg = relay
        self.rwait = {"A": [], "B": []}           # (protocol, RelayHalf) waiting at the relay, oldest first
        # reachability of the network, fixed for the run: the sides whose DIALLED connections get through to the
        # peer's listener (the other side is behind NAT / a firewall, or the peer does not listen)
        self.reach = {"A": "A" in reach, "B": "B" in reach}
        self.nport = 0
        self.ports = {}
        self.links = []           # slots: Link or None
        self.sides = {"A": Side(self, "A", sa), "B": Side(self, "B", sb)}
        self.ever_selected = False
        self.details = []         # descriptions of the exceptions of the last operation

    def half(self, x):
        """x's oldest connection that still waits (open) at the relay"""
        for h in self.rwait[x]:
            if h[1].status == "open":
                return h
        return None

    def peer(self, x):
        return self.sides["B" if x == "A" else "A"]

    def place(self, link):
        for i, l in enumerate(self.links):
            if l is None:
                self.links[i] = link
                return
        self.links.append(link)

    # ---- introspection of the real objects -------------------------------------------------
    def eq_entries(self, s):
        """control-relevant calls waiting in the side's eventual queue: ('a'|'l', protocol)"""
        out = []
        for f, args, kw in s.eq._calls:
            nm = getattr(f, "__name__", "")
            if nm == "accept" and args:
                out.append(("a", args[0]))
            elif nm == "callback" and args and isinstance(getattr(f, "__self__", None), defer.Deferred):
                d = f.__self__
                cb = d.callbacks[0][0][0] if d.callbacks else None
                if getattr(cb, "__name__", "") == "<lambda>":
                    out.append(("l", args[0]))
        return out

    def slot_of(self, p):
        for i, l in enumerate(self.links):
            if l is not None and (p is l.proto["A"] or p is l.proto["B"]):
                return i
        return None

    def gc(self):
        for i, l in enumerate(self.links):
            if l is None:
                continue
            ok = True
            for x in "AB":
                s = self.sides[x]
                p = l.proto[x]
                if l.end[x].status != "lost":
                    ok = False
                elif s.mgr is not None and s.mgr._connection is p:
                    ok = False
                elif any(q is p for _, q in self.eq_entries(s)):
                    ok = False
            if ok:
                self.links[i] = None
        while self.links and self.links[-1] is None:
            self.links.pop()

    def role_name(self, want):
        for x in "AB":
            m = self.sides[x].mgr
            if m is not None and m._my_role is want:
                return x
        return None

    def owner(self, s, p):
        c = p._connector
        if c is s.con:
            return "cur"
        return "old-" + automat_state(c)

    def hint_fresh(self, sender, plaintext):
        """does this connection-hints message name the sender's CURRENT connector's listener?"""
        msg = json.loads(plaintext.decode("utf-8"))
        ports = {h.get("port") for h in msg.get("hints", [])}
        cur = sender.con
        for p in sender.ports:
            if p.num in ports:
                return cur is not None and p.factory._connector is cur
        return False

    def msg_name(self, sender, plaintext):
        msg = json.loads(plaintext.decode("utf-8"))
        t = msg["type"]
        if t == "connection-hints":
            if any(h.get("type") == "relay-v1" for h in msg.get("hints", [])):
                k = None
                for i, (_, pt) in enumerate(sender.sent):
                    if pt is plaintext:
                        k = i
                fresh = k is not None and sender.con is not None and sender.sent_con[k] is sender.con
                return "rhints" + ("1" if fresh else "0")
            return "hints" + ("1" if self.hint_fresh(sender, plaintext) else "0")
        return t

    def show_side(self, x):
        s = self.sides[x]
        d = s.dilator
        m = s.mgr
        buf = ",".join(str(k) for k in sorted(s.boss._rx_dilate_seqnums))
        base = (f"dil={1 if m is not None else 0} key={1 if s.has_key() else 0} vers={1 if s.has_vers() else 0} "
                f"rx={s.boss._next_rx_dilate_seqnum} buf=[{buf}] pend={len(d._pending_inbound_dilate_messages)}")
        if m is None:
            return base
        role = "L" if m._my_role is LEADER else "F" if m._my_role is FOLLOWER else "-"
        c = s.con
        cst = automat_state(c) if c is not None else "-"
        lst = 1 if any(p.open and p.factory._connector is c for p in s.ports) else 0
        stale = 1 if any(p.open and p.factory._connector is not c for p in s.ports) else 0
        peer = self.peer(x)
        att = []
        for dc, ep in s.pending_attempts():
            if isinstance(ep, RelayEP):
                att.append("R")
                continue
            port = self.ports.get(ep.port)
            att.append("1" if (port is not None and peer.con is not None and port.factory._connector is peer.con) else "0")
        rh = "+".join(self.owner(s, h[0]) for h in self.rwait[x] if h[1].status == "open") or "-"
        fly = []
        for a in s.inflight:
            if isinstance(a.ep, RelayEP):
                fly.append("R")
            else:
                port = self.ports.get(a.ep.port)
                fly.append("1" if (port is not None and peer.con is not None and port.factory._connector is peer.con) else "0")
        conn = "-"
        if m._connection is not None:
            k = self.slot_of(m._connection)
            conn = str(k) if k is not None else "?"
        eqs = []
        for kind, p in self.eq_entries(s):
            k = self.slot_of(p)
            eqs.append(kind + (str(k) if k is not None else "?"))
        tt = "-" if m._traffic is None else automat_state(m._traffic)
        return (base + f" mgr={automat_state(m)} role={role} con={cst} lst={lst} stale={stale} att=[{','.join(att)}] fly=[{','.join(fly)}] rh={rh} conn={conn} "
                f"eq=[{','.join(eqs)}] tt={tt} gen={m._next_dilation_generation} "
                f"tm={1 if self.ping_timer(s) is not None else 0} oq=[{','.join(str(r.seqnum) for r in m._outbound._outbound_queue)}] "
                f"rxh={m._inbound._highest_inbound_acked + 1}")

    def ping_timer(self, s):
        """the pending ping-interval DelayedCall on the side's reactor (the real one Manager created), or None"""
        zero = set(id(dc) for dc in s.rclock.allzero)
        for dc in s.rclock.calls:
            if id(dc) not in zero and dc.active():
                return dc
        return None

    def rec_names(self, l, x):
        """the complete records (tokens after prologue, handshake, KCM) waiting in x's outgoing buffer"""
        out = []
        b = l.buf[x]
        idx = l.ntok[x]
        while True:
            k = self.token_len(l, x, b, idx == 0)
            if k is None:
                return out
            if idx >= 3:
                r = dconn_parse(b[4:k - 16])
                out.append(r)
            b = b[k:]
            idx += 1

    def show_link(self, i):
        l = self.links[i]
        if l is None:
            return f"{i}:free"
        ld = self.role_name(LEADER)
        fo = self.role_name(FOLLOWER)
        parts = [f"{i}:dial={'R' if l.relay else l.dialer}"]
        if ld is not None and fo is not None:
            hs = "1" if (l.ntok[fo] >= 2 and l.ntok[ld] >= 2) else "0"
            kf = "1" if (l.ntok[fo] == 2 and self.tokens_ready(l, fo) >= 1) else "0"
            kl = "1" if (l.ntok[ld] == 2 and self.tokens_ready(l, ld) >= 1) else "0"
            sil = ("A" if l.sil["A"] else "") + ("B" if l.sil["B"] else "") or "-"
            parts.append(f"hs={hs} kf={kf} kl={kl} sil={sil} qa=[{','.join(self.rec_names(l, 'A'))}] qb=[{','.join(self.rec_names(l, 'B'))}]")
        for x in "AB":
            p = l.proto[x]
            parts.append(f"{x}:{self.owner(self.sides[x], p)}/{automat_state(p)}/{l.end[x].status}/{len(p._inbound_record_queue)}")
        return " ".join(parts)

    def show_chan(self, x):
        """messages sent by x and not yet handed to the peer's Boss, with their dilate-N numbers"""
        s = self.sides[x]
        peer = self.peer(x)
        out = []
        for k, (phase, pt) in enumerate(s.sent):
            if k not in peer.arrived:
                out.append(f"{phase_num(phase)}:{self.msg_name(s, pt)}")
        return ",".join(out)

    def show(self):
        links = " | ".join(self.show_link(i) for i in range(len(self.links)))
        return (f"A{{{self.show_side('A')}}} B{{{self.show_side('B')}}} ab=[{self.show_chan('A')}] ba=[{self.show_chan('B')}] "
                f"links=[{links}]")

    # ---- token-level view of a link's byte streams ------------------------------------------
    def token_len(self, l, x, b, first):
        if first:
            k = len(l.proto[x]._outbound_prologue)
        else:
            if len(b) < 4:
                return None
            k = 4 + int.from_bytes(b[:4], "big")
        return k if len(b) >= k else None

    def tokens_ready(self, l, x):
        n = 0
        b = l.buf[x]
        first = l.ntok[x] == 0
        while True:
            k = self.token_len(l, x, b, first)
            if k is None:
                return n
            first = False
            b = b[k:]
            n += 1

    def deliver_bytes(self, l, x, data, rng):
        """hand `data` (written by side x) to the other end, in seeded chunks; returns exception or None"""
        y = "B" if x == "A" else "A"
        p = l.proto[y]
        i = 0
        while i < len(data):
            n = rng.choice([1, 1, 2, 3, 5, 8, 21, 100])
            chunk = data[i:i + n]
            i += n
            p.dataReceived(chunk)

    def deliver_token(self, l, x, rng, part=False):
        """the next complete token of x's stream goes to the other end (if that end is open)"""
        y = "B" if x == "A" else "A"
        if l.end[y].status != "open" or l.sil[x]:
            return False
        k = self.token_len(l, x, l.buf[x], l.ntok[x] == 0)
        if k is None:
            return False
        data, l.buf[x] = l.buf[x][:k], l.buf[x][k:]
        l.ntok[x] += 1
        self.deliver_bytes(l, x, data, rng)
        return True

    # ---- enabledness (from the real objects) --------------------------------------------------
    def hs_enabled(self, i):
        if i >= len(self.links) or self.links[i] is None:
            return False
        l = self.links[i]
        ld, fo = self.role_name(LEADER), self.role_name(FOLLOWER)
        if ld is None or fo is None:
            return False
        if l.end["A"].status != "open" or l.end["B"].status != "open" or l.sil["A"] or l.sil["B"]:
            return False
        return not (l.ntok[fo] >= 2 and l.ntok[ld] >= 2)

    def kcm_enabled(self, i, frm):
        """frm = 'f' (follower's KCM to the leader) or 'l'"""
        if i >= len(self.links) or self.links[i] is None:
            return False
        l = self.links[i]
        ld, fo = self.role_name(LEADER), self.role_name(FOLLOWER)
        if ld is None or fo is None:
            return False
        src, dst = (fo, ld) if frm == "f" else (ld, fo)
        return l.ntok[src] == 2 and self.tokens_ready(l, src) >= 1 and l.end[dst].status == "open" and not l.sil[src]

    def cut_ok(self, x):
        """`WV.C11.enabled (.cut x)`: a path remains for later generations and the last candidate in progress is spared"""
        other = "B" if x == "A" else "A"
        if not self.reach[x] or not (self.reach[other] or self.relay_cfg is not None):
            return False
        before = self.other_candidates(None)
        self.reach[x] = False
        try:
            after = self.other_candidates(None)
        finally:
            self.reach[x] = True
        return after > 0 or before == 0

    def other_candidates(self, i):
        n = 0
        for j, l in enumerate(self.links):
            if l is None or j == i:
                continue
            if all(l.end[x].status == "open" and not l.sil[x] and self.owner(self.sides[x], l.proto[x]) == "cur" for x in "AB"):
                n += 1
        for x in "AB":
            s = self.sides[x]
            peer = self.peer(x)
            if s.mgr is not None and self.reach[x]:
                for ep in [ep for dc, ep in s.pending_attempts()] + [a.ep for a in s.inflight]:
                    if isinstance(ep, RelayEP):
                        continue
                    port = self.ports.get(ep.port)
                    if port is not None and peer.con is not None and port.factory._connector is peer.con:
                        n += 1
            # fresh hints SENT by x and not yet processed by the peer's Manager (the peer would dial them): they count
            # from the moment they are sent — an implementation that discards them loses candidates by itself
            if self.reach[peer.name]:
                pts = [pt for k, (ph, pt) in enumerate(s.sent) if k not in peer.arrived]
                pts += list(peer.boss._rx_dilate_seqnums.values())
                pts += list(peer.dilator._pending_inbound_dilate_messages)
                n += sum(1 for pt in pts if self.msg_name(s, pt) == "hints1")
        if self.relay_leg("A") and self.relay_leg("B"):
            n += 1
        return n

    def relay_leg(self, x):
        """`WV.C11.relayLeg`: x waits at the relay, or its dial is scheduled, or the relay hint of the peer's CURRENT
        generation has been SENT to it and not yet processed"""
        s = self.sides[x]
        peer = self.peer(x)
        h = self.half(x)
        if h is not None and self.owner(s, h[0]) == "cur":
            return True
        if s.mgr is not None and any(isinstance(ep, RelayEP) for ep in [ep for dc, ep in s.pending_attempts()] + [a.ep for a in s.inflight]):
            return True
        pts = [pt for k, (ph, pt) in enumerate(peer.sent) if k not in s.arrived]
        pts += list(s.boss._rx_dilate_seqnums.values())
        pts += list(s.dilator._pending_inbound_dilate_messages)
        return any(self.msg_name(peer, pt) == "rhints1" for pt in pts)

    def kill_ok(self, i):
        """`WV.C11.killOK`: the network may drop anything but the LAST candidate of the newest generation"""
        l = self.links[i]
        ld = self.role_name(LEADER)
        if ld is not None and automat_state(l.proto[ld]) == "selected":
            return True
        if any(l.end[x].status != "open" or l.sil[x] for x in "AB"):
            return True
        if any(self.owner(self.sides[x], l.proto[x]) != "cur" for x in "AB"):
            return True
        return self.other_candidates(i) > 0

    def more_enabled(self, i, x):
        """a record (a token beyond prologue/handshake/KCM) written by x is waiting and can be delivered"""
        if i >= len(self.links) or self.links[i] is None:
            return False
        l = self.links[i]
        y = "B" if x == "A" else "A"
        return l.ntok[x] >= 3 and self.tokens_ready(l, x) >= 1 and l.end[y].status == "open" and not l.sil[x]

    def healthy(self, l):
        return all(l.end[x].status == "open" and not l.sil[x] for x in "AB")

    def enabled_ops(self):
        out = []
        for x in "AB":
            s = self.sides[x]
            peer = self.peer(x)
            if not s.has_key():
                out.append(["key", x])
            elif not s.has_vers():
                out.append(["vers", x])
            if not s.dilate_called:
                out.append(["dilate", x])
            if s.has_vers():
                for k in range(len(peer.sent)):
                    if k not in s.arrived:
                        out.append(["arrive", x, k])
            if s.pending_attempts() or s.inflight:
                out.append(["connect", x])
            if s.pending_attempts():
                out.append(["dial", x])
            if self.cut_ok(x):
                out.append(["cut", x])
            if s.eq._calls:
                out.append(["turn", x])
            m = s.mgr
            if m is not None and m._my_role is LEADER and m._connection is not None:
                out.append(["sigrec", x])
            if m is not None and m._my_role is not None:
                out.append(["write", x])
            if self.ping_timer(s) is not None:
                out.append(["tick", x])
        for i, l in enumerate(self.links):
            if l is None:
                continue
            if self.hs_enabled(i):
                out.append(["hs", i])
                out.append(["hspart", i])
            if self.kcm_enabled(i, "f"):
                out.append(["kcmf", i])
            if self.kcm_enabled(i, "l"):
                out.append(["kcml", i])
            for x in "AB":
                if l.end[x].status != "lost" and self.kill_ok(i):
                    out.append(["lose", x, i])
                if self.more_enabled(i, x):
                    out.append(["more", x, i])
                if not l.sil[x] and self.kill_ok(i):
                    out.append(["silence", x, i])
        return out

    # ---- one operation on the real code --------------------------------------------------------
    def apply(self, op, seed=0):
        """returns (line for the model, outcome)"""
        k = op[0]
        self.details = []
        rng = random.Random(seed * 7919 + 13)
        nlog = len(LOGGED)
        skipped = False
        exn = None
        try:
            if k in ("key", "vers", "dilate", "connect", "dial", "cut", "turn", "sigrec"):  # noqa
                x = op[1]
                s = self.sides[x]
                line = f"{k} {x}"
                if k == "key":
                    if s.has_key():
                        skipped = True
                    else:
                        s.dilator.got_key(b"k" * 32)
                elif k == "vers":
                    if s.has_vers() or not s.has_key():
                        skipped = True
                    else:
                        s.dilator.got_wormhole_versions({"can-dilate": ["ged"]})
                elif k == "dilate":
                    if s.dilate_called:
                        skipped = True
                    else:
                        s.dilate_called = True
                        with mock.patch.object(dman, "make_side", lambda: s.sidestr):
                            if self.relay_cfg == x:
                                s.dilator.dilate(transit_relay_location=RELAY_LOCATION)
                            else:
                                s.dilator.dilate()
                elif k == "cut":
                    # the network changes (NAT rebinding, a firewall, a lost route): x's dialled connections no longer get through
                    if not self.cut_ok(x):
                        skipped = True
                    else:
                        self.reach[x] = False
                elif k == "dial":
                    # the deferLater of the oldest scheduled connection fires: Connector._connect -> ep.connect(f)
                    pa = s.pending_attempts()
                    if not pa:
                        skipped = True
                    else:
                        s.rclock.run(pa[0][0])
                elif k == "connect":
                    # the oldest attempt in flight is answered (if none is in flight the oldest scheduled one is dialled first)
                    pa = s.pending_attempts()
                    if not s.inflight and not pa:
                        skipped = True
                    else:
                        if not s.inflight:
                            s.rclock.run(pa[0][0])
                        if s.inflight:
                            s.inflight[0].answer()
                elif k == "turn":
                    due = [dc for dc in s.eqclock.calls if dc.active()]
                    if due:
                        s.eqclock.run(due[0])
                elif k == "sigrec":
                    m = s.mgr
                    if m is None or m._my_role is not LEADER or m._connection is None:
                        skipped = True
                    else:
                        m._signal_reconnect()
            elif k == "arrive":
                x, n = op[1], op[2]
                s = self.sides[x]
                peer = self.peer(x)
                line = f"arrive {x} {n}"
                if not s.has_vers() or n >= len(peer.sent) or n in s.arrived:
                    skipped = True
                else:
                    s.arrived.add(n)
                    phase, pt = peer.sent[n]
                    D_RECEIVED_DILATE(s.boss, phase_num(phase), pt)
            elif k in ("hs", "hspart"):
                i = op[1]
                line = f"{k} {i}"
                if not self.hs_enabled(i):
                    skipped = True
                else:
                    l = self.links[i]
                    budget = rng.randrange(0, 4) if k == "hspart" else 99
                    progress = True
                    while progress and budget > 0:
                        progress = False
                        order = ["A", "B"]
                        rng.shuffle(order)
                        for x in order:
                            if budget > 0 and l.ntok[x] < 2 and self.deliver_token(l, x, rng):
                                progress = True
                                budget -= 1
                    if k == "hspart" and not self.hs_enabled(i):
                        # the partial delivery happened to finish the handshake: tell the model
                        line = f"hs {i}"
            elif k in ("kcmf", "kcml"):
                i = op[1]
                line = f"{k} {i}"
                if not self.kcm_enabled(i, k[3]):
                    skipped = True
                else:
                    l = self.links[i]
                    src = self.role_name(FOLLOWER if k == "kcmf" else LEADER)
                    self.deliver_token(l, src, rng)
            elif k == "write":
                x = op[1]
                s = self.sides[x]
                line = f"write {x}"
                m = s.mgr
                if m is None or m._my_role is None:
                    skipped = True
                else:
                    m.send_open(m.allocate_subchannel_id(), "c11")       # the application opens a subchannel
            elif k == "tick":
                x = op[1]
                s = self.sides[x]
                line = f"tick {x}"
                dc = self.ping_timer(s)
                if dc is None:
                    skipped = True
                else:
                    s.rclock.rightNow = max(s.rclock.rightNow, dc.getTime())   # the interval elapses on the real Clock
                    s.rclock.run(dc)                                           # … and the real DelayedCall fires
            elif k == "silence":
                x, i = op[1], op[2]
                line = f"silence {x} {i}"
                if i >= len(self.links) or self.links[i] is None or self.links[i].sil[x] or not self.kill_ok(i):
                    skipped = True
                else:
                    self.links[i].sil[x] = True
            elif k == "more":
                x, i = op[1], op[2]
                line = f"more {x} {i}"
                if not self.more_enabled(i, x):
                    skipped = True
                else:
                    self.deliver_token(self.links[i], x, rng)
            elif k == "lose":
                x, i = op[1], op[2]
                line = f"lose {x} {i}"
                if i >= len(self.links) or self.links[i] is None or self.links[i].end[x].status == "lost" or not self.kill_ok(i):
                    skipped = True
                else:
                    l = self.links[i]
                    l.end[x].status = "lost"
                    l.proto[x].connectionLost(failure.Failure(ConnectionDone()))
            else:
                raise ValueError(op)
        except Exception as e:   # an exception left an entry point of the real code
            exn = type(e).__name__
            self.details.append(describe_exc(e))
        logged = []
        for ev in LOGGED[nlog:]:
            f = ev.get("log_failure") or ev.get("failure")
            logged.append(f.type.__name__ if f is not None else "error")
            self.details.append(describe_exc(f.value) if f is not None else "error")
        del LOGGED[nlog:]
        # a connection that was closed while it waited at the relay: the relay forgets it, the protocol is told
        for y in "AB":
            for h in list(self.rwait[y]):
                if h[1].status == "closing":
                    h[1].status = "lost"
                    self.rwait[y].remove(h)
                    h[0].connectionLost(failure.Failure(ConnectionDone()))
        self.gc()
        if skipped:
            outcome = "skip"
        elif exn:
            outcome = "exn:" + exn
        elif logged:
            outcome = "logged:" + ",".join(logged)
        else:
            outcome = "ok"
        return line, outcome


def describe_exc(e):
    """`NoTransition:Connector.stopped:add_candidate` for Automat's NoTransition, else the class name"""
    import re
    txt = str(e)
    m = re.search(r"no transition for MethodicalInput\(method=<function (\w+)\.(\w+) at .*MethodicalState\(method=<function \w+\.(\w+) at", txt)
    if m:
        return f"NoTransition:{m.group(1)}.{m.group(3)}:{m.group(2)}"
    return type(e).__name__


def dconn_parse(plaintext):
    """name of an L2 record as the model prints it"""
    from wormhole._dilation.connection import parse_record, Open, Data, Close, Ack, Ping, Pong, KCM
    r = parse_record(plaintext)
    if isinstance(r, (Open, Data, Close)):
        return f"o{r.seqnum}"
    if isinstance(r, Ack):
        return f"a{r.resp_seqnum}"
    if isinstance(r, Ping):
        return "pi"
    if isinstance(r, Pong):
        return "po"
    return "kcm" if isinstance(r, KCM) else "?"


def patches(world):
    def server_from_string(reactor, desc):
        for s in world.sides.values():
            if s.rclock is reactor:
                return ServerEP(world, s)
        raise AssertionError("unknown reactor")

    def ep_from_hint(h, tor, reactor):
        for s in world.sides.values():
            if s.rclock is reactor:
                ep = RelayEP(world, s) if h.hostname == RELAY_HOST else ClientEP(world, s, h.port)
                s.endpoints.append(ep)
                return ep
        raise AssertionError("unknown reactor")
    return [mock.patch.object(dconn, "build_noise", ToyNoise),
            mock.patch.object(dconn, "serverFromString", server_from_string),
            mock.patch.object(dconn, "endpoint_from_hint_obj", ep_from_hint),
            mock.patch.object(dconn.Connector, "_get_listener_addresses", lambda self: ["127.0.0.1"])]


# ---------------------------------------------------------------------------------------------
# the oracle: C11 on the observed state of the real objects

def all_protocols(w, x):
    return [(i, l.proto[x], l.end[x]) for i, l in enumerate(w.links) if l is not None]


def check_state(w, viol, where):
    a, b = w.sides["A"], w.sides["B"]
    ma, mb = a.mgr, b.mgr
    # roles: same answer on both sides, the larger side string leads
    if ma is not None and mb is not None and ma._my_role is not None and mb._my_role is not None:
        want = (LEADER, FOLLOWER) if a.sidestr > b.sidestr else (FOLLOWER, LEADER)
        if (ma._my_role, mb._my_role) != want:
            viol.append(("roles-disagree", f"{where}: sides {a.sidestr!r}/{b.sidestr!r} chose roles {ma._my_role}/{mb._my_role}"))
    if a.sidestr == b.sidestr:
        for x, m in (("A", ma), ("B", mb)):
            if m is not None and m._my_role is not None:
                viol.append(("roles-disagree", f"{where}: equal sides but {x} chose role {m._my_role}"))
    for x in "AB":
        s = w.sides[x]
        m = s.mgr
        if m is None:
            continue
        cur = m._connection
        sel = [(i, p, e) for i, p, e in all_protocols(w, x) if automat_state(p) == "selected"]
        live = [(i, p, e) for i, p, e in sel if e.status != "lost"]
        if len(live) > 1:
            viol.append(("two-selected", f"{where}: side {x} has {len(live)} live selected protocols (links {[i for i, _, _ in live]})"))
        for i, p, e in live:
            if p is not cur:
                viol.append(("selected-not-connection", f"{where}: side {x}: link {i} is selected and alive but Manager._connection is not it"))
        if cur is not None and automat_state(cur) != "selected":
            viol.append(("connection-not-selected", f"{where}: side {x}: Manager._connection is a protocol in state {automat_state(cur)}"))
        if (automat_state(m) == "CONNECTED") != (cur is not None) and automat_state(m) not in ("ABANDONING", "STOPPING"):
            viol.append(("connected-without-connection", f"{where}: side {x}: Manager {automat_state(m)} but _connection={'set' if cur else 'None'}"))
    fo = w.role_name(FOLLOWER)
    ld = w.role_name(LEADER)
    if fo is not None and ld is not None:
        for i, l in enumerate(w.links):
            if l is None:
                continue
            if automat_state(l.proto[fo]) != "unselected" and automat_state(l.proto[ld]) != "selected":
                viol.append(("follower-unconfirmed", f"{where}: follower end of link {i} is {automat_state(l.proto[fo])} but the leader "
                             f"end is {automat_state(l.proto[ld])} (leader never selected it)"))


def goal(w):
    a, b = w.sides["A"], w.sides["B"]
    if a.mgr is None or b.mgr is None:
        return False
    if automat_state(a.mgr) != "CONNECTED" or automat_state(b.mgr) != "CONNECTED":
        return False
    for l in w.links:
        if l is not None and l.proto["A"] is a.mgr._connection and l.proto["B"] is b.mgr._connection:
            return w.healthy(l)
    return False


def cooperative_completion(w, log):
    """deliver everything, let stale links die, let one candidate of the newest generation complete;
    returns True when both Managers are CONNECTED on the two (open) ends of one link"""
    def do(op):
        line, oc = w.apply(op, seed=1)
        log.append(f"{line} -> {oc}")
        return oc
    for rounds in range(60):
        if goal(w):
            return True
        progress = False
        for x in "AB":
            s = w.sides[x]
            if not s.has_key():
                do(["key", x]); progress = True
            if not s.has_vers():
                do(["vers", x]); progress = True
            if not s.dilate_called:
                do(["dilate", x]); progress = True
        # mailbox in order, then every pending turn
        for x in "AB":
            s = w.sides[x]
            peer = w.peer(x)
            for k in range(len(peer.sent)):
                if k not in s.arrived:
                    do(["arrive", x, k]); progress = True
            while s.eq._calls:
                do(["turn", x]); progress = True
        if progress:
            continue
        # a link with a dead / closing end: the other end learns of it
        for i, l in enumerate(w.links):
            if l is None:
                continue
            st = [l.end[x].status for x in "AB"]
            if any(s != "open" for s in st):
                for x in "AB":
                    if l.end[x].status != "lost":
                        do(["lose", x, i]); progress = True
        if progress:
            continue
        for i, l in enumerate(w.links):
            if l is None:
                continue
            if w.kcm_enabled(i, "l"):
                do(["kcml", i]); progress = True; break
            if w.kcm_enabled(i, "f"):
                do(["kcmf", i]); progress = True; break
        if progress:
            continue
        for i, l in enumerate(w.links):
            if l is not None and w.hs_enabled(i):
                do(["hs", i]); progress = True; break
        if progress:
            continue
        for i, l in enumerate(w.links):
            if l is not None:
                for x in "AB":
                    if w.more_enabled(i, x):
                        do(["more", x, i]); progress = True
        if progress:
            continue
        for x in "AB":
            if w.sides[x].pending_attempts() or w.sides[x].inflight:
                do(["connect", x]); progress = True; break
        if progress:
            continue
        # a connection that no longer delivers (silent loss) is only discovered by the leader's ping timer
        for x in "AB":
            m = w.sides[x].mgr
            if m is not None and m._connection is not None and w.ping_timer(w.sides[x]) is not None:
                k = w.slot_of(m._connection)
                if k is not None and not w.healthy(w.links[k]):
                    do(["tick", x]); progress = True
        if progress:
            continue
        # nothing left to deliver and not converged: let the network drop a link that is not shared
        for i, l in enumerate(w.links):
            if l is not None:
                for x in "AB":
                    if l.end[x].status != "lost":
                        do(["lose", x, i]); progress = True
                if progress:
                    break
        if not progress:
            return goal(w)
    return goal(w)


# ---------------------------------------------------------------------------------------------

def run_ops(sa, sb, ops, choose=None, nsteps=0, final=True, reach="AB", relay=None):
    """runs explicit `ops` (list of [op…, seed]) or, if `choose` is given, picks `nsteps` enabled ops;
    `reach`: the sides whose dialled connections get through (at least one: the property's proviso)"""
    del LOGGED[:]
    w = World(sa, sb, reach, relay)
    ps = patches(w)
    for p in ps:
        p.start()
    try:
        lines = [f"init {sa.encode().hex() or '-'} {sb.encode().hex() or '-'} {int(w.reach['A'])} {int(w.reach['B'])} {relay or '-'}"]
        exp = ["ok | " + w.show()]
        viol = []
        tags = {"reach:" + (reach or "none"), "relay:" + (relay or "none")}
        done = []
        observations = []

        def step(op, seed):
            line, oc = w.apply(op, seed)
            lines.append(line)
            exp.append(oc + " | " + w.show())
            done.append(list(op) + [seed])
            tags.add("op:" + op[0])
            if oc == "exn:ValueError" and sa == sb and op[0] in ("arrive", "dilate"):
                tags.add("equal-sides-raise")          # `raise ValueError("their side shouldn't be equal: reflection?")`
            elif oc.startswith("exn:"):
                d = w.details[0] if w.details else oc[4:]
                if d == "NoTransition:DilatedConnectionProtocol.unselected:got_record" and op[0] in ("kcml", "more"):
                    fo = w.role_name(FOLLOWER)
                    if fo is not None and (op[0] == "kcml" or op[1] != fo):
                        viol.append(("follower-used-unconfirmed-connection",
                                     f"step {len(done)} {line}: the follower was handed a record on a connection the leader had not "
                                     f"confirmed with its KCM (DilatedConnectionProtocol still `unselected`); state {w.show()}"))
                if "exception:" + d == KNOWN_STOPPED_CANDIDATE:
                    # a KCM reaching an inbound link of a Connector that was already stopped: NoTransition escapes
                    # that stale link's dataReceived and Twisted drops the link — which is what should happen to it.
                    # C11 (roles, one connection at a time, re-convergence) does not speak about it: an
                    # observation (DESIGN §11.4), witnessed in Lean by no_undeclared_input_fails_on_current.
                    observations.append(f"step {len(done)} {line}: {d} on a stale inbound link (link dropped)")
                    tags.add("observation:kcm-on-stopped-connector")
                else:
                    viol.append(("exception:" + d, f"step {len(done)} {line}: {d} left an entry point of the real code; state {w.show()}"))
            elif oc.startswith("logged:"):
                for d in w.details:
                    if op[0] == "turn" and d == "NoTransition:Connector.stopped:accept":
                        # EventualQueue._turn logs and swallows it: an observation, not a violation
                        observations.append(f"step {len(done)} {line}: {d} inside an eventual-queue turn (logged and swallowed)")
                        tags.add("observation:eventual-accept-on-stopped-connector")
                    else:
                        viol.append(("logged:" + d, f"step {len(done)} {line}: {d} was logged; state {w.show()}"))
            check_state(w, viol, f"step {len(done)} ({line})")
            for x in "AB":
                m = w.sides[x].mgr
                if m is not None:
                    tags.add("mgr:" + automat_state(m))
                    if m._connection is not None:
                        w.ever_selected = True
        if choose is None:
            for op in ops:
                step(op[:-1], op[-1])
        else:
            for _ in range(nsteps):
                en = w.enabled_ops()
                if not en:
                    break
                op, seed = choose(w, en)
                if op is None:
                    break
                step(op, seed)
        if final and sa != sb and not any(s.startswith("exception:") and s != KNOWN_STOPPED_CANDIDATE for s, _ in viol):
            log = []
            try:
                ok = cooperative_completion(w, log)
                err = None
            except Exception as e:
                ok, err = False, type(e).__name__
            check_state(w, viol, "after cooperative completion")
            if not ok:
                viol.append(("no-reconvergence", f"cooperative completion did not reach CONNECTED/CONNECTED on one link ({err}); "
                             f"last steps {log[-12:]}; state {w.show()}"))
            else:
                tags.add("reconverged")
        if sa == sb:
            tags.add("equal-sides")
        ever_selected = w.ever_selected
        # failures that only surface when a Deferred is collected belong to THIS case, not to a later one
        del w
        global _CASES_SINCE_GC
        _CASES_SINCE_GC += 1
        if viol or _CASES_SINCE_GC >= 400:      # a full collection per case would dominate the run time
            _CASES_SINCE_GC = 0
            gc.collect()
        for ev in LOGGED:
            f = ev.get("log_failure") or ev.get("failure")
            if f is not None:
                viol.append(("logged-late:" + describe_exc(f.value), "an unhandled failure was logged when the case's objects were collected"))
        del LOGGED[:]
        return Result(lines, exp, viol, sorted(tags), nontrivial=ever_selected, info=dict(ops=done, observations=observations))
    finally:
        for p in ps:
            p.stop()


_CASES_SINCE_GC = 0
KNOWN_STOPPED_CANDIDATE = "exception:NoTransition:Connector.stopped:add_candidate"

# witnesses of the Lean theorems, replayed on the real code (seed 0 = whole-token chunks do not matter)
SETUP = [["key", "A", 0], ["key", "B", 0], ["vers", "A", 0], ["vers", "B", 0], ["dilate", "A", 0], ["dilate", "B", 0],
         ["arrive", "A", 0, 0], ["arrive", "B", 0, 0], ["arrive", "A", 1, 0], ["connect", "A", 0], ["hs", 0, 3], ["kcmf", 0, 5],
         ["turn", "A", 0]]
RELAY_SETUP = [["key", "A", 0], ["key", "B", 0], ["vers", "A", 0], ["vers", "B", 0], ["dilate", "A", 0], ["dilate", "B", 0],
               ["arrive", "A", 0, 0], ["arrive", "B", 0, 0], ["arrive", "B", 1, 0], ["arrive", "B", 2, 0],
               ["connect", "A", 0], ["connect", "B", 0], ["connect", "B", 0], ["hs", 0, 3], ["kcmf", 0, 5], ["turn", "A", 0],
               ["kcml", 0, 2], ["turn", "B", 0]]
INFLIGHT_SETUP = [["key", "A", 0], ["key", "B", 0], ["vers", "A", 0], ["vers", "B", 0], ["dilate", "A", 0], ["dilate", "B", 0],
                  ["arrive", "A", 0, 0], ["arrive", "B", 0, 0], ["arrive", "B", 1, 0], ["arrive", "B", 2, 0],
                  ["dial", "A", 0], ["connect", "B", 0], ["hs", 0, 3], ["kcmf", 0, 5], ["turn", "A", 0], ["kcml", 0, 2], ["turn", "B", 0]]
CORPUS = [
    # WV.Props.C11.witnessRun: leader's KCM reaches an inbound link of a Connector the follower stopped
    dict(sa="b", sb="a", ops=SETUP + [["lose", "A", 0, 0], ["turn", "A", 0], ["arrive", "B", 1, 0], ["arrive", "B", 2, 0], ["kcml", 0, 1]]),
    # WV.Props.C11.afterLoss, then nothing: the cooperative completion must re-converge
    dict(sa="b", sb="a", ops=SETUP + [["kcml", 0, 2], ["turn", "B", 0], ["lose", "A", 0, 0], ["turn", "A", 0]]),
    # loss noticed by the follower first, while the leader still believes in the link
    dict(sa="b", sb="a", ops=SETUP + [["kcml", 0, 2], ["turn", "B", 0], ["lose", "B", 0, 0], ["turn", "B", 0]]),
    # the follower's accept turn races with `reconnect`: accept on a stopped Connector (observation)
    dict(sa="b", sb="a", ops=SETUP + [["kcml", 0, 2], ["lose", "A", 0, 0], ["turn", "A", 0], ["arrive", "B", 1, 0], ["arrive", "B", 2, 0], ["turn", "B", 0]]),
    # mirrored roles, messages before dilate(), reordered arrival
    dict(sa="a", sb="b", ops=[["key", "A", 0], ["vers", "A", 0], ["dilate", "A", 0], ["key", "B", 0], ["vers", "B", 0], ["arrive", "B", 0, 0],
                              ["dilate", "B", 0], ["arrive", "A", 1, 0], ["arrive", "A", 0, 0], ["arrive", "B", 1, 0], ["connect", "A", 0],
                              ["connect", "B", 0], ["hs", 1, 7], ["hs", 0, 9], ["kcmf", 1, 1], ["kcmf", 0, 1], ["turn", "B", 0], ["turn", "B", 0]]),
    # only the LEADER's dialling gets through (follower behind NAT / leader not listening), and `reconnect` finds the
    # follower still CONNECTING (the leader selected, its end died before the follower read the KCM): the follower must
    # answer `reconnecting` THEN its new hints — hints the leader receives while FLUSHING are discarded as stale
    dict(sa="b", sb="a", reach="A", ops=SETUP + [["lose", "A", 0, 0], ["turn", "A", 0], ["arrive", "B", 1, 0], ["arrive", "B", 2, 0]]),
    dict(sa="b", sb="a", reach="A", ops=SETUP + [["kcml", 0, 2], ["lose", "A", 0, 0], ["turn", "A", 0], ["arrive", "B", 1, 0], ["arrive", "B", 2, 0],
                                                 ["arrive", "A", 2, 0], ["arrive", "A", 3, 0], ["turn", "B", 0]]),
    # the same with the roles mirrored (B leads and is the only one that can dial)
    dict(sa="a", sb="b", reach="B", ops=[["key", "A", 0], ["key", "B", 0], ["vers", "A", 0], ["vers", "B", 0], ["dilate", "A", 0], ["dilate", "B", 0],
                                         ["arrive", "A", 0, 0], ["arrive", "B", 0, 0], ["arrive", "B", 1, 0], ["connect", "B", 0], ["hs", 0, 3],
                                         ["kcmf", 0, 5], ["turn", "B", 0], ["lose", "B", 0, 0], ["turn", "B", 0], ["arrive", "A", 1, 0],
                                         ["arrive", "A", 2, 0]]),
    # only the FOLLOWER's dialling gets through; loss after selection, noticed by the leader first
    dict(sa="a", sb="b", reach="A", ops=[["key", "A", 0], ["key", "B", 0], ["vers", "A", 0], ["vers", "B", 0], ["dilate", "A", 0], ["dilate", "B", 0],
                                         ["arrive", "A", 0, 0], ["arrive", "B", 0, 0], ["arrive", "A", 1, 0], ["arrive", "B", 1, 0], ["connect", "B", 0],
                                         ["connect", "A", 0], ["hs", 0, 3], ["kcmf", 0, 5], ["turn", "B", 0], ["lose", "B", 0, 0], ["turn", "B", 0],
                                         ["arrive", "A", 2, 0]]),
    # WV.Props.C11.afterSilentLoss: the connection in use turns into a black hole (both directions), nobody is told; the
    # leader's REAL ping DelayedCall fires twice, the leader hangs up, its Manager must be told and send `reconnect`
    dict(sa="b", sb="a", ops=SETUP + [["kcml", 0, 2], ["turn", "B", 0], ["write", "A", 0], ["silence", "A", 0, 0], ["silence", "B", 0, 0],
                                      ["tick", "A", 0], ["tick", "A", 0], ["lose", "A", 0, 0], ["turn", "A", 0]]),
    # half-open: only the follower->leader direction dies (no Pong comes back); then left to the cooperative completion
    dict(sa="b", sb="a", ops=SETUP + [["kcml", 0, 2], ["turn", "B", 0], ["silence", "B", 0, 0], ["tick", "A", 0], ["more", "A", 0, 4]]),
    # a ping that IS answered keeps the connection: tick, ping, pong, tick again
    dict(sa="b", sb="a", ops=SETUP + [["kcml", 0, 2], ["turn", "B", 0], ["tick", "A", 0], ["more", "A", 0, 1], ["more", "B", 0, 1], ["tick", "A", 0],
                                      ["more", "A", 0, 2], ["more", "B", 0, 3]]),
    # a record written before the first connection: Outbound.use_connection re-sends it AFTER the leader's KCM
    dict(sa="b", sb="a", ops=SETUP[:-1] + [["write", "A", 0], ["turn", "A", 0], ["kcml", 0, 2], ["more", "A", 0, 1], ["turn", "B", 0],
                                           ["more", "A", 0, 1]]),
    # the connection dies with an un-acked leader record; the next generation re-sends it behind the KCM
    dict(sa="b", sb="a", ops=SETUP + [["kcml", 0, 2], ["turn", "B", 0], ["write", "A", 0], ["write", "B", 0], ["lose", "A", 0, 0], ["turn", "A", 0],
                                      ["lose", "B", 0, 0], ["turn", "B", 0], ["arrive", "B", 1, 0], ["arrive", "B", 2, 0], ["arrive", "A", 2, 0],
                                      ["arrive", "A", 3, 0], ["connect", "A", 0], ["hs", 0, 1], ["kcmf", 0, 1], ["turn", "A", 0], ["kcml", 0, 1],
                                      ["more", "A", 0, 1], ["turn", "B", 0], ["more", "B", 0, 1], ["more", "B", 0, 1]]),
    # WV.Props.C11.afterLossRelayOnly: A (leader) is configured with the transit relay, nobody can dial directly; first
    # connection through the relay; lost; the relay hint must be published AGAIN in generation 2 or the peer never dials
    dict(sa="b" * 16, sb="a" * 16, reach="", relay="A", ops=RELAY_SETUP + [["lose", "A", 0, 0], ["turn", "A", 0]]),
    # the same with the FOLLOWER configured, loss noticed by the follower first
    dict(sa="b" * 16, sb="a" * 16, reach="", relay="B",
         ops=[["key", "A", 0], ["key", "B", 0], ["vers", "A", 0], ["vers", "B", 0], ["dilate", "A", 0], ["dilate", "B", 0],
              ["arrive", "A", 0, 0], ["arrive", "B", 0, 0], ["arrive", "A", 1, 0], ["arrive", "A", 2, 0], ["arrive", "B", 1, 0],
              ["connect", "B", 0], ["connect", "A", 0], ["connect", "A", 0], ["connect", "B", 0], ["hs", 0, 5], ["kcmf", 0, 1], ["turn", "A", 0],
              ["kcml", 0, 1], ["turn", "B", 0], ["lose", "B", 0, 0], ["turn", "B", 0], ["lose", "A", 0, 0], ["turn", "A", 0]]),
    # relay AND a direct path (only the follower can dial): both candidates complete, the leader picks one
    dict(sa="b" * 16, sb="a" * 16, reach="B", relay="A", ops=RELAY_SETUP[:10] + [["arrive", "A", 1, 0], ["connect", "A", 0], ["connect", "B", 0], ["connect", "B", 0],
                                                                              ["hs", 0, 1], ["hs", 1, 2], ["kcmf", 1, 1], ["kcmf", 0, 1], ["turn", "A", 0], ["turn", "A", 0]]),
    # an attempt still IN FLIGHT when its generation ends: the leader's connection to the relay is being established while
    # she selects the direct link (the selection turn must abort it); later the direct path goes away (`cut`), the link is
    # lost, and generation 2 has only the relay — where nothing of generation 1 may be waiting
    dict(sa="b" * 16, sb="a" * 16, reach="B", relay="A", ops=INFLIGHT_SETUP + [["connect", "A", 0], ["cut", "B", 0], ["lose", "A", 0, 0], ["turn", "A", 0]]),
    # the same, the generation ends by `reconnect` while the follower is CONNECTING (Connector.stop) with its relay attempt in flight
    dict(sa="b" * 16, sb="a" * 16, reach="A", relay="A",
         ops=[["key", "A", 0], ["key", "B", 0], ["vers", "A", 0], ["vers", "B", 0], ["dilate", "A", 0], ["dilate", "B", 0],
              ["arrive", "A", 0, 0], ["arrive", "B", 0, 0], ["arrive", "A", 1, 0], ["arrive", "B", 1, 0], ["arrive", "B", 2, 0],
              ["dial", "B", 0], ["dial", "B", 0], ["connect", "A", 0], ["connect", "A", 0], ["hs", 0, 1], ["kcmf", 0, 1], ["turn", "A", 0],
              ["lose", "A", 0, 0], ["turn", "A", 0], ["arrive", "B", 3, 0], ["connect", "B", 0], ["connect", "B", 0], ["cut", "A", 0]]),
    # equal sides: ValueError on both
    dict(sa="same", sb="same", ops=[["key", "A", 0], ["vers", "A", 0], ["dilate", "A", 0], ["key", "B", 0], ["vers", "B", 0], ["dilate", "B", 0],
                                    ["arrive", "A", 0, 0], ["arrive", "B", 0, 0]]),
]

PROFILES = ["plain", "lossy", "races", "reorder", "early", "equal"]


def weight(profile, w, op):
    k = op[0]
    # application records, ping-timer expiry and silent loss: rare in every profile, a few records per run
    if k == "write":
        m = w.sides[op[1]].mgr
        return 0.0 if m._outbound._next_outbound_seqnum >= 3 else (0.25 if m._my_role is LEADER else 0.1)
    if k == "dial":
        return 0.5
    if k == "cut":
        return 0.03
    if k == "tick":
        return {"plain": 0.03, "lossy": 0.25, "races": 0.15}.get(profile, 0.08)
    if k == "silence":
        return {"plain": 0.01, "lossy": 0.15, "races": 0.1}.get(profile, 0.04)
    if profile == "plain":
        return {"lose": 0.02, "sigrec": 0.02, "hspart": 0.3, "arrive": 3.0 if op[0] == "arrive" and op[2] == min(
            j for j in range(len(w.peer(op[1]).sent)) if j not in w.sides[op[1]].arrived) else 0.0}.get(k, 1.0)
    if profile == "lossy":
        return {"lose": 0.5, "sigrec": 0.3, "hspart": 0.3}.get(k, 1.0)
    if profile == "races":
        return {"lose": 0.35, "sigrec": 0.2, "turn": 0.4, "arrive": 0.6, "hspart": 0.2}.get(k, 1.0)
    if profile == "reorder":
        return {"lose": 0.15, "arrive": 2.0, "hspart": 0.2}.get(k, 1.0)
    if profile == "early":
        return {"dilate": 0.15, "arrive": 2.0, "lose": 0.1}.get(k, 1.0)
    return 1.0


def guided(seed, n, profile, relay=None):
    rng = random.Random(seed)
    if profile == "equal":
        sa = sb = "same" if relay is None else "5a" * 8
    elif relay is not None:
        # the sided relay handshake needs the real 16-hex-digit sides
        sa, sb = "%016x" % rng.getrandbits(64), "%016x" % rng.getrandbits(64)
    else:
        pool = ["a", "b", "ab", "aa", "a0", "B", "", "é", "z", "10", "9", "abc", "abd", "\U0001f600", "￿"]
        sa = rng.choice(pool)
        sb = rng.choice([p for p in pool if p != sa])
        if rng.random() < 0.5:
            sa, sb = "%016x" % rng.getrandbits(64), "%016x" % rng.getrandbits(64)

    def choose(w, en):
        ws = [weight(profile, w, op) for op in en]
        if sum(ws) <= 0:
            ws = [0.0 if op[0] == "write" else 1.0 for op in en]
            if sum(ws) <= 0:
                return None, 0          # nothing but more application writes is possible: the schedule ends
        op = rng.choices(en, weights=ws)[0]
        return op, rng.randrange(10**6)
    return sa, sb, choose


REACH = ["AB", "A", "B"]


def run_case(case):
    if case.get("kind") == "e2e":
        # the path BETWEEN the two Managers: `dilate-N` phases travel through the mailbox and are put back in order by
        # each side's Boss before the Manager sees them.  A long dilated session (every reconnect costs two or three
        # `dilate-N` messages) reaches two-digit N; the Managers re-converge only if these still arrive, in order.
        # Run on two real clients (C03's whole-client world), judged by the dilate-* clauses of its oracle.
        from . import c03
        r = c03.run_case(case)
        keep = [(sg, m) for sg, m in r.violations if sg.startswith("dilate-")]
        return Result([], [], keep, ["mailbox-path:dilate-two-digit"], True)
    reach = case.get("reach", "AB")
    relay = case.get("relay")
    if "ops" in case:
        return run_ops(case["sa"], case["sb"], case["ops"], reach=reach, relay=relay)
    sa, sb, choose = guided(case["seed"], case["n"], case["profile"], relay)
    return run_ops(sa, sb, None, choose=choose, nsteps=case["n"], reach=reach, relay=relay)


def rand_net(rng):
    """(reach, relay): a network in which at least one path exists — direct dialling by A and/or B, or the relay"""
    if rng.random() < 0.3:
        return rng.choice(["", "", "A", "B", "AB"]), rng.choice(["A", "B"])
    return rng.choice(["AB", "AB", "A", "B"]), None


def explicit(case):
    if "ops" in case:
        return case
    r = run_case(case)
    sa, sb, _ = guided(case["seed"], case["n"], case["profile"], case.get("relay"))
    return dict(sa=sa, sb=sb, ops=r.info["ops"], reach=case.get("reach", "AB"), relay=case.get("relay"))


def exhaustive_loss_cases():
    """thorough: every interleaving (as a merge of independent per-actor sequences) of one loss + reconnect
    with the candidate links of the new generation, after a common connected prefix"""
    import itertools
    prefix = SETUP + [["kcml", 0, 2], ["turn", "B", 0]]
    out = []
    for first in ("A", "B"):
        second = "B" if first == "A" else "A"
        # actor sequences: the leader's loss handling, the follower's, the mailbox to B, the mailbox to A
        seqs = {
            "lossA": [["lose", "A", 0, 0], ["turn", "A", 0]],
            "lossB": [["lose", "B", 0, 0], ["turn", "B", 0]],
            "mbB": [["arrive", "B", 1, 0], ["arrive", "B", 2, 0]],
            "mbA": [["arrive", "A", 2, 0], ["arrive", "A", 3, 0]],
        }
        names = list(seqs)
        total = sum(len(v) for v in seqs.values())
        # all merges of the four sequences (8!/(2!^4) = 2520), then a fixed cooperative tail is left to the oracle
        def merges(idx):
            if sum(idx) == total:
                yield []
                return
            for k, nme in enumerate(names):
                if idx[k] < len(seqs[nme]):
                    nxt = list(idx)
                    nxt[k] += 1
                    for rest in merges(nxt):
                        yield [seqs[nme][idx[k]]] + rest
        for m in merges([0, 0, 0, 0]):
            if m[0][0] == "lose" and m[0][1] == first:
                out.append(dict(sa="b", sb="a", ops=prefix + m))
                out.append(dict(sa="b", sb="a", ops=prefix + m, reach="A"))      # only the leader can dial
    # `reconnect` while the follower is still CONNECTING: the leader selected and sent its KCM (SETUP), the follower has
    # not read it yet; every merge of the leader's loss, the two mailboxes and the follower's KCM + accept turn
    seqs2 = [[["lose", "A", 0, 0], ["turn", "A", 0]],
             [["arrive", "B", 1, 0], ["arrive", "B", 2, 0]],
             [["arrive", "A", 2, 0], ["arrive", "A", 3, 0]],
             [["kcml", 0, 2], ["turn", "B", 0]]]

    def merges2(idx):
        if all(i == len(q) for i, q in zip(idx, seqs2)):
            yield []
            return
        for k, q in enumerate(seqs2):
            if idx[k] < len(q):
                nxt = list(idx)
                nxt[k] += 1
                for rest in merges2(nxt):
                    yield [q[idx[k]]] + rest
    for m in merges2([0, 0, 0, 0]):
        for reach in ("AB", "A"):
            out.append(dict(sa="b", sb="a", ops=SETUP + m, reach=reach))
    return out


def cases(rng, tier):
    out = [dict(c) for c in CORPUS]
    from . import c03
    out.append(c03.dil_case(list(range(15)), [False, False], ndil=13, nmsg=2))
    out.append(c03.dil_case([12, 11, 10] + list(range(10)) + [13, 14], [True, False], ndil=13, nmsg=2))
    if tier == "thorough":
        out.append(c03.dil_case(list(range(42)), [True, True], ndil=40, nmsg=2))
    if tier == "thorough":
        out += exhaustive_loss_cases()
    for i, p in enumerate(PROFILES):
        out.append(dict(seed=500 + i, n=60, profile=p, reach=REACH[i % 3]))
    n = 300 if tier == "quick" else 6000
    for _ in range(n):
        reach, relay = rand_net(rng)
        out.append(dict(seed=rng.randrange(10**9), n=rng.choice([25, 50, 90, 150]), profile=rng.choice(PROFILES[:-1] if rng.random() < 0.95 else PROFILES),
                        reach=reach, relay=relay))
    return out


def shrink(case):
    case = explicit(case)
    ops = case["ops"]
    n = len(ops)
    for cut in (n // 2, n * 3 // 4, n - 1):
        if 0 < cut < n:
            yield dict(case, ops=ops[:cut])
    for i in range(n - 1, -1, -1):
        yield dict(case, ops=ops[:i] + ops[i + 1:])


def search(rng, seconds, seeds):
    t0 = time.time()
    for c in seeds:
        yield c, run_case(c)
    while time.time() - t0 < seconds:
        reach, relay = rand_net(rng)
        c = dict(seed=rng.randrange(10**9), n=rng.choice([50, 90, 150]), profile=rng.choice(PROFILES[:-1]), reach=reach, relay=relay)
        yield c, run_case(c)
