"""C10 — Dilation delivers every record exactly once, in order, across reconnects.

Two REAL `Manager`s (A = leader, B = follower) with their real `Outbound` and `Inbound`, joined by fake L2
connections (objects with `send_record` / `transport.registerProducer` / `transport.unregisterProducer`) whose
delivery, loss point, replacement and flow-control pauses are scheduled by the case.  Records travel as the real
Open/Data/Close/Ack namedtuples and enter the peer through the real `Manager.got_record`.
"""
import itertools
from unittest import mock

from twisted.internet.task import Clock, Cooperator
from zope.interface import alsoProvides

from wormhole._dilation.connection import Open, Data, Close, Ack
from wormhole._dilation.manager import Manager, DILATION_VERSIONS
from wormhole._interfaces import ISend
from wormhole.eventual import EventualQueue

from ..core import Result
from ..fakes import hx

ID = "C10"
PROP_MODULES = ["WV.Props.C10"]
TRUSTED = [
    "L2 connection = authenticated FIFO of whole records (C12); the harness joins the two real Managers by fake "
    "connections at the send_record/got_record boundary, so loss points are record boundaries (a partially "
    "received frame is never a record)",
    "one L2 connection at a time per side and flow-control calls only from the registered transport (C11, Twisted "
    "producer contract) — the model's `enabledA`",
    "subchannel producers (C15) and the SubChannel state machine (C13) are not part of this model: the receiver is "
    "observed at Inbound.handle_open/handle_data/handle_close and at the SubChannel mocks they call",
]
RULE = ("schedules of open/write/close on <=3 subchannels per direction interleaved with use_connection / "
        "connection loss / transport pause+resume (pause landing inside the replay loop) / delivery of single "
        "records and acks, every schedule closed by a final stable generation that drains; corpus of boundary "
        "schedules, a realistic phase generator (leader connects first, loss with a delivered prefix, both orders of "
        "noticing), a free generator over all enabled events; thorough adds the exhaustive loss-point enumeration "
        "(4 records x 2 generations x loss points of data and acks x pause budgets); non-trivial = a replay, a "
        "dropped duplicate, a lost in-flight record or ack, or a pause inside the drain happened; distinct = "
        "distinct canonical traces")


# ---------------------------------------------------------------------------
# fakes

class _Transport:
    def __init__(self):
        self.producer = None

    def registerProducer(self, p, streaming):
        assert streaming is True
        self.producer = p

    def unregisterProducer(self):
        self.producer = None


class FakeConn:
    """What Outbound/Inbound/Manager need from a DilatedConnectionProtocol.  The transport pauses its producer
    from inside the `budget`-th send_record (0 = never) — same rule as `WV.C10.connSend`."""

    def __init__(self, budget):
        self.out = []
        self.budget = budget
        self.transport = _Transport()

    def send_record(self, r):
        self.out.append(r)
        if self.budget == 1:
            self.budget = 0
            p = self.transport.producer
            if p is None:
                raise RuntimeError("harness: send_record on a connection without registered producer")
            p.pauseProducing()
        elif self.budget > 0:
            self.budget -= 1

    def pauseProducing(self):
        pass

    def resumeProducing(self):
        pass

    def disconnect(self):
        pass


class FakeSC:
    """stands in for SubChannel on the receiving side; records what Inbound tells it"""

    def __init__(self, scid, manager, host_addr, peer_addr):
        self.scid = scid
        self.peer_addr = peer_addr
        self.log = None

    def remote_data(self, data):
        self.log.append(("data", self.scid, bytes(data)))

    def remote_close(self):
        self.log.append(("close", self.scid, None))


class _Demux:
    def __init__(self, side):
        self.side = side

    def _got_open(self, sc, peer_addr):
        sc.log = self.side.sc_log.setdefault(sc.scid, [])
        sc.log.append(("open", sc.scid, peer_addr.subprotocol))

    def register(self, name, factory):
        pass


class SideH:
    def __init__(self, name, leader):
        self.name = name
        self.leader = leader
        self.clock = Clock()
        self.eq = EventualQueue(self.clock)
        self.coop = Cooperator(terminationPredicateFactory=lambda: (lambda: True), scheduler=self.eq.eventually)
        self.send = mock.Mock()
        alsoProvides(self.send, ISend)
        my, their = ("bb", "aa") if leader else ("aa", "bb")
        m = Manager(self.send, my, None, self.clock, self.eq, self.coop, DILATION_VERSIONS, 30.0, None)
        m.got_dilation_key(b"\x00" * 32)
        m.got_wormhole_versions({"can-dilate": ["ged"]})
        m.rx_PLEASE({"side": their})          # -> CONNECTING (Connector is a mock for the whole case)
        self.mgr = m
        self.ob = m._outbound
        self.ib = m._inbound
        self.conn = None
        self.chan = []          # `out` of the current / most recent connection: in flight to the peer
        self.issued = []        # (kind, scid, payload) in call order
        self.handle_log = []    # calls of Inbound.handle_open/data/close, in order
        self.sc_log = {}        # scid -> what the SubChannel mock saw
        self.open_scids = []
        m._subprotocol_factories = _Demux(self)
        ib = self.ib
        ho, hd, hc = ib.handle_open, ib.handle_data, ib.handle_close

        def handle_open(scid, subprotocol):
            self.handle_log.append(("open", scid, subprotocol))
            return ho(scid, subprotocol)

        def handle_data(scid, data):
            self.handle_log.append(("data", scid, bytes(data)))
            return hd(scid, data)

        def handle_close(scid):
            self.handle_log.append(("close", scid, None))
            return hc(scid)
        ib.handle_open, ib.handle_data, ib.handle_close = handle_open, handle_data, handle_close

    def connected(self):
        return self.ob._connection is not None


def show_item(kind, seq, scid, payload):
    if kind == "open":
        return f"open:{seq}:{scid}:{hx(payload.encode('utf8'))}"
    if kind == "data":
        return f"data:{seq}:{scid}:{hx(payload)}"
    return f"close:{seq}:{scid}"


def show_wire(r):
    if isinstance(r, Open):
        return show_item("open", r.seqnum, r.scid, r.subprotocol)
    if isinstance(r, Data):
        return show_item("data", r.seqnum, r.scid, r.data)
    if isinstance(r, Close):
        return show_item("close", r.seqnum, r.scid, None)
    if isinstance(r, Ack):
        return f"ack:{r.resp_seqnum}"
    raise TypeError(r)


def show_side(s):
    ob = s.ob
    disp = " ".join(show_item(k, i, c, p) for i, (k, c, p) in enumerate(s.handle_log))
    # NB the seqnum printed for a dispatched record is its position: the real handle_* calls do not carry the
    # seqnum; the model prints the record's own seqnum.  They agree exactly when dispatch is gap- and
    # duplicate-free, which is the property; otherwise the line differs and the oracle has already fired.
    return (f"q=[{' '.join(str(r.seqnum) for r in ob._outbound_queue)}] "
            f"u=[{' '.join(str(r.seqnum) for r in ob._queued_unsent)}] n={ob._next_outbound_seqnum} "
            f"c={1 if ob._connection is not None else 0} p={1 if ob._paused else 0} "
            f"bud={ob._connection.budget if ob._connection is not None else 0} "
            f"out=[{' '.join(show_wire(r) for r in s.chan)}] h={s.ib._highest_inbound_acked} disp=[{disp}]")


# ---------------------------------------------------------------------------
# running a schedule

SUBS = ["a", "proto", "é"]


def run_case(case):
    with mock.patch("wormhole._dilation.manager.Connector"), \
            mock.patch("wormhole._dilation.inbound.SubChannel", FakeSC):
        return _run(case)


def _run(case):
    A = SideH("A", True)
    B = SideH("B", False)
    sides = {"A": A, "B": B}
    lines, exp, viol, tags = [], [], [], set()
    dead = [None]

    def world():
        return "A{" + show_side(A) + "} B{" + show_side(B) + "}"

    def check_prefix(where):
        for s, peer in ((A, B), (B, A)):
            got = peer.handle_log
            if got != s.issued[:len(got)]:
                viol.append(("dispatch-not-prefix",
                             f"{where}: {peer.name} dispatched {fmt(got)} which is not a prefix of what {s.name} issued {fmt(s.issued)}"))
                return False
            for scid, log in peer.sc_log.items():
                want = [i for i in s.issued if i[1] == scid]
                if log != want[:len(log)]:
                    viol.append(("subchannel-callbacks-not-prefix",
                                 f"{where}: subchannel {scid} on {peer.name} saw {fmt(log)}, issued {fmt(want)}"))
                    return False
        return True

    def do(op):
        """returns False when the op is not enabled now (skipped, nothing emitted)"""
        k, x = op[0], op[1]
        s = sides[x]
        peer = B if s is A else A
        res = "ok"
        if k == "write":
            what = op[2]
            if what == "open":
                scid, sub = op[3], op[4]
                line = f"write {x} open {scid} {hx(sub.encode('utf8'))}"
                f = lambda: s.mgr.send_open(scid, sub)
                item = ("open", scid, sub)
            elif what == "data":
                scid, d = op[3], bytes.fromhex(op[4])
                line = f"write {x} data {scid} {hx(d)}"
                f = lambda: s.mgr.send_data(scid, d)
                item = ("data", scid, d)
            else:
                scid = op[3]
                line = f"write {x} close {scid}"
                f = lambda: s.mgr.send_close(scid)
                item = ("close", scid, None)
            s.issued.append(item)
            if s.connected() and s.ob._queued_unsent:
                tags.add("write-behind-replay")
            if not s.connected():
                tags.add("write-while-down")
        elif k == "use":
            if s.connected():
                return False
            budget = op[2]
            line = f"use {x} {budget}"
            if s.chan:
                tags.add("inflight-lost:" + ("data" if any(not isinstance(r, Ack) for r in s.chan) else "ack"))
            if s.ob._outbound_queue:
                tags.add("replay")

            def f():
                c = FakeConn(budget)
                s.conn = c
                s.chan = c.out
                s.mgr.connector_connection_made(c)
        elif k == "lose":
            if not s.connected():
                if len(op) > 2 and op[2] == "force":      # adversarial: stop without a connection
                    line = f"lose {x}"
                    f = lambda: s.ob.stop_using_connection()
                else:
                    return False
            else:
                line = f"lose {x}"

                def f():
                    s.mgr.connector_connection_lost()
                    s.conn = None
                    # back to CONNECTING: the mailbox-level reconnect handshake (C11) is not the subject here
                    if s.leader:
                        s.mgr.rx_RECONNECTING()
                    else:
                        s.mgr.rx_RECONNECT()
        elif k == "pause":
            if not s.connected():
                return False
            line = f"pause {x}"
            f = lambda: s.conn.transport.producer.pauseProducing()
        elif k == "resume":
            if not s.connected():
                return False
            budget = op[2]
            line = f"resume {x} {budget}"

            def f():
                s.conn.budget = budget
                s.conn.transport.producer.resumeProducing()
        elif k == "deliver":
            if not peer.chan:
                return False
            line = f"deliver {x}"
            r = peer.chan[0]
            res = show_wire(r)
            if isinstance(r, Ack):
                if s.ob._queued_unsent and s.ob._queued_unsent[0].seqnum <= r.resp_seqnum:
                    tags.add("ack-retires-unsent")
            else:
                if r.seqnum <= s.ib._highest_inbound_acked:
                    tags.add("duplicate-dropped")
                if not s.connected():
                    tags.add("ack-not-sent")

            def f():
                s.mgr.got_record(peer.chan.pop(0))
        else:
            raise ValueError(op)
        tags.add("op:" + k)
        lines.append(line)
        try:
            f()
        except Exception as e:  # a Python exception ends the case (the model stops there too)
            name = type(e).__name__
            exp.append(name)
            dead[0] = name
            tags.add("exception:" + name)
            return True
        if k == "use" and s.ob._queued_unsent:
            tags.add("paused-inside-replay")
        exp.append(res + " " + world())
        check_prefix(line)
        return True

    for op in case["ops"]:
        if dead[0] or viol:
            break
        do(op)

    adversarial = any(op[0] == "lose" and len(op) > 2 for op in case["ops"])
    if dead[0] and not adversarial:
        viol.append(("exception", f"{dead[0]} raised by a legal schedule at `{lines[-1]}`"))
    if not dead[0] and not viol:
        # the final stable generation: both sides connected, unpaused, never paused again; drain everything
        for x in ("A", "B"):
            s = sides[x]
            if not s.connected():
                do(["use", x, 0])
            else:
                do(["resume", x, 0])
        guard = 0
        while (A.chan or B.chan) and not dead[0] and guard < 10000:
            guard += 1
            if A.chan:
                do(["deliver", "B"])
            if B.chan and not dead[0]:
                do(["deliver", "A"])
        if dead[0]:
            viol.append(("exception", f"{dead[0]} raised while draining the final generation at `{lines[-1]}`"))
        elif not viol:
            for s, peer in ((A, B), (B, A)):
                if peer.handle_log != s.issued:
                    viol.append(("not-all-delivered",
                                 f"after a stable generation drained, {peer.name} dispatched {fmt(peer.handle_log)} but {s.name} issued {fmt(s.issued)}"))
                    break
                for scid in {i[1] for i in s.issued}:
                    want = [i for i in s.issued if i[1] == scid]
                    if peer.sc_log.get(scid, []) != want:
                        viol.append(("subchannel-callbacks-incomplete",
                                     f"subchannel {scid} on {peer.name} saw {fmt(peer.sc_log.get(scid, []))}, issued {fmt(want)}"))
                        break
    nontrivial = bool(tags & {"replay", "duplicate-dropped", "inflight-lost:data", "inflight-lost:ack",
                              "paused-inside-replay", "write-behind-replay", "ack-not-sent"})
    return Result(lines, exp, viol, sorted(tags), nontrivial)


def fmt(items):
    out = []
    for k, c, p in items:
        if k == "open":
            out.append(f"open({c},{p})")
        elif k == "data":
            out.append(f"data({c},{p.hex()})")
        else:
            out.append(f"close({c})")
    return "[" + " ".join(out) + "]"


# ---------------------------------------------------------------------------
# generators

class AppGen:
    """well-formed application behaviour on one side: open a fresh scid, write to open ones, close once"""

    def __init__(self, x, rng):
        self.x = x
        self.rng = rng
        self.next_scid = 1 if x == "A" else 2
        self.open = []
        self.count = 0

    def write(self):
        rng = self.rng
        self.count += 1
        if not self.open or (len(self.open) < 3 and rng.random() < 0.25):
            scid = self.next_scid
            self.next_scid += 2
            self.open.append(scid)
            return ["write", self.x, "open", scid, rng.choice(SUBS)]
        scid = rng.choice(self.open)
        if rng.random() < 0.15:
            self.open.remove(scid)
            return ["write", self.x, "close", scid]
        n = rng.choice([0, 1, 1, 2, 3, 8])
        return ["write", self.x, "data", scid, bytes(rng.randrange(256) for _ in range(n)).hex()]


def gen_free(rng, n):
    apps = {"A": AppGen("A", rng), "B": AppGen("B", rng)}
    ops = []
    for _ in range(n):
        x = rng.choice("AB") if rng.random() < 0.3 else "A"
        r = rng.random()
        if r < 0.30:
            ops.append(apps[x].write())
        elif r < 0.62:
            ops.append(["deliver", rng.choice("AB")])
        elif r < 0.74:
            ops.append(["use", x, rng.choice([0, 0, 1, 2, 3])])
        elif r < 0.82:
            ops.append(["lose", x])
        elif r < 0.88:
            ops.append(["pause", x])
        else:
            ops.append(["resume", x, rng.choice([0, 0, 1, 2])])
    return ops


def gen_realistic(rng, gens):
    """generations as the Manager/Connector produce them: leader uses the connection first, traffic, then the
    connection dies with a delivered prefix, the two sides notice in either order, writes continue meanwhile"""
    apps = {"A": AppGen("A", rng), "B": AppGen("B", rng)}
    ops = []

    def some_writes(k):
        for _ in range(k):
            ops.append(apps[rng.choice("AAB")].write())

    some_writes(rng.randrange(0, 4))
    for _g in range(gens):
        ops.append(["use", "A", rng.choice([0, 0, 1, 2])])
        for _ in range(rng.randrange(0, 3)):
            ops.append(["deliver", "B"])        # follower's connection delivers its queue before connection_made
        ops.append(["use", "B", rng.choice([0, 0, 1, 2])])
        for _ in range(rng.randrange(2, 14)):
            r = rng.random()
            if r < 0.4:
                some_writes(1)
            elif r < 0.85:
                ops.append(["deliver", rng.choice("AB")])
            elif r < 0.92:
                ops.append(["pause", rng.choice("AB")])
            else:
                ops.append(["resume", rng.choice("AB"), rng.choice([0, 1, 2])])
        first, second = rng.choice([("A", "B"), ("B", "A")])
        ops.append(["lose", first])
        for _ in range(rng.randrange(0, 3)):
            r = rng.randrange(3)
            ops.append(apps["A"].write() if r == 0 else ["deliver", "AB"[r - 1]])
        ops.append(["lose", second])
        some_writes(rng.randrange(0, 3))
    return ops


def corpus():
    out = []
    o = lambda x, scid: ["write", x, "open", scid, "a"]
    d = lambda x, scid, h: ["write", x, "data", scid, h]
    c = lambda x, scid: ["write", x, "close", scid]
    # 1. queued while down, then delivered
    out.append([o("A", 1), d("A", 1, "01"), c("A", 1)])
    # 2. loss after delivery but before the ack comes back: replay, duplicates dropped
    out.append([["use", "A", 0], ["use", "B", 0], o("A", 1), d("A", 1, "01"), ["deliver", "B"], ["deliver", "B"],
                ["lose", "A"], ["lose", "B"], d("A", 1, "02")])
    # 3. ack delivered, then loss of the second record in flight
    out.append([["use", "A", 0], ["use", "B", 0], o("A", 1), d("A", 1, "01"), ["deliver", "B"], ["deliver", "A"],
                ["lose", "B"], ["lose", "A"], ["use", "B", 0], d("A", 1, "02")])
    # 4. pause inside the replay loop, a write lands behind the unsent tail, loss before resume
    out.append([o("A", 1), d("A", 1, "01"), d("A", 1, "02"), ["use", "A", 1], d("A", 1, "03"), ["deliver", "B"],
                ["lose", "A"], d("A", 1, "04"), ["use", "A", 2], ["resume", "A", 1], ["resume", "A", 0]])
    # 5. follower gets the replay before its own connection_made: acks are not sent
    out.append([o("A", 1), d("A", 1, "aa"), ["use", "A", 0], ["deliver", "B"], ["deliver", "B"], ["use", "B", 0],
                d("A", 1, "bb"), ["deliver", "B"], ["deliver", "A"]])
    # 6. both directions, acks and data interleaved on the same connection, ack pauses the transport
    out.append([["use", "A", 0], ["use", "B", 1], o("A", 1), o("B", 2), ["deliver", "B"], d("B", 2, "10"),
                ["deliver", "A"], ["deliver", "A"], ["resume", "B", 0], ["deliver", "A"], ["deliver", "B"]])
    # 7. three generations without any ack ever arriving
    out.append([o("A", 1), ["use", "A", 0], ["deliver", "B"], ["lose", "A"], d("A", 1, "01"), ["use", "A", 0],
                ["deliver", "B"], ["deliver", "B"], ["lose", "A"], c("A", 1), ["use", "A", 0], ["deliver", "B"]])
    # 8. pause/resume with nothing to replay; double pause; double resume
    out.append([["use", "A", 0], ["pause", "A"], ["pause", "A"], o("A", 1), ["resume", "A", 0], ["resume", "A", 0],
                d("A", 1, "")])
    # 10. an ack retires records that are still waiting in _queued_unsent (second loop of handle_ack): the acks of
    #     the previous generation are read while the replay of the next one is paused
    out.append([o("A", 1), d("A", 1, "01"), d("A", 1, "02"), ["use", "A", 0], ["use", "B", 0], ["deliver", "B"],
                ["deliver", "B"], ["deliver", "B"], ["lose", "A"], ["use", "A", 1], ["deliver", "A"], ["deliver", "A"],
                ["resume", "A", 0]])
    # 11. write boundaries: an empty write and one larger than a Noise payload stay single records
    big = bytes((i * 31 + 7) % 256 for i in range(65520)).hex()
    out.append([o("A", 1), d("A", 1, ""), d("A", 1, big), ["use", "A", 2], ["deliver", "B"], ["lose", "A"],
                d("A", 1, "ff")])
    # 9. adversarial: stop_using_connection without a connection
    out.append([o("A", 1), ["lose", "A", "force"]])
    return [dict(kind="sched", ops=ops) for ops in out]


def exhaustive(rng):
    """4 records x 2 generations: every split of the writes around the first connection, every loss point of data
    and of acks in generation 1, pause budgets for both replays, both orders of noticing the loss."""
    out = []
    recs = [["write", "A", "open", 1, "a"], ["write", "A", "data", 1, "01"], ["write", "A", "data", 1, "02"],
            ["write", "A", "close", 1]]
    for pre in range(0, 5):                 # records written before the first connection
        for mid in range(0, 5 - pre):       # written during generation 1 (rest: while down)
            for b1 in (0, 1, 2):
                for nd in range(0, pre + mid + 1):       # data records delivered in generation 1
                    for na in range(0, nd + 1):          # acks delivered in generation 1
                        for b2 in (0, 1, 3):
                            for order in (("A", "B"), ("B", "A")):
                                ops = recs[:pre] + [["use", "A", b1], ["use", "B", 0]] + recs[pre:pre + mid]
                                ops += [["resume", "A", 0]] if b1 else []
                                ops += [["deliver", "B"]] * nd + [["deliver", "A"]] * na
                                ops += [["lose", order[0]], ["lose", order[1]]] + recs[pre + mid:]
                                ops += [["use", "A", b2]]
                                out.append(dict(kind="sched", ops=ops))
    rng.shuffle(out)
    return out


def cases(rng, tier):
    out = corpus()
    if tier == "quick":
        n_real, n_free = 300, 300
    else:
        n_real, n_free = 9000, 9000
    for _ in range(n_real):
        out.append(dict(kind="sched", ops=gen_realistic(rng, rng.choice([1, 2, 2, 3]))))
    for _ in range(n_free):
        out.append(dict(kind="sched", ops=gen_free(rng, rng.choice([10, 25, 40]))))
    ex = exhaustive(rng)
    out += ex if tier == "thorough" else ex[:300]
    return out


def search(rng, seconds, seeds):
    import time
    t0 = time.time()
    for c in seeds:
        yield c, run_case(c)
    for c in corpus():
        yield c, run_case(c)
    for c in exhaustive(rng):
        yield c, run_case(c)
        if time.time() - t0 > seconds:
            return
    while time.time() - t0 < seconds:
        c = dict(kind="sched", ops=gen_realistic(rng, 3) if rng.random() < 0.5 else gen_free(rng, 40))
        yield c, run_case(c)


def well_formed(ops):
    """application-level sanity of a schedule: data/close only on a subchannel this side opened and has not closed"""
    opened, closed = set(), set()
    for op in ops:
        if op[0] != "write":
            continue
        key = (op[1], op[3])
        if op[2] == "open":
            if key in opened:
                return False
            opened.add(key)
        else:
            if key not in opened or key in closed:
                return False
            if op[2] == "close":
                closed.add(key)
    return True


def shrink(case):
    ops = case["ops"]
    n = len(ops)
    for size in (max(n // 2, 1), max(n // 4, 1), 1):
        for i in range(0, n, size):
            cand = ops[:i] + ops[i + size:]
            if cand and len(cand) < n and well_formed(cand):
                yield dict(case, ops=cand)
