"""C10 — Dilation delivers every record exactly once, in order, across reconnects.

Two REAL wormholes built by the PUBLIC entry point `wormhole.create(…, dilation=True).dilate()` (defaults), i.e.
Boss -> Dilator -> two REAL `Manager`s (A = leader, B = follower) with their real `Outbound`, `Inbound`, `SubChannel`s and
`SubchannelDemultiplex`; the application on the receiving side is a listening `IHalfCloseableProtocol`
factory that may be registered LATE (after the peer has opened subchannels and written to them).
Two worlds join the Managers:

 * world "rec": fake L2 connections at the `send_record` / `got_record` boundary (objects with `send_record`,
   `transport.registerProducer/unregisterProducer`), free schedules of every enabled event;
 * world "l2": the REAL `DilatedConnectionProtocol` (ToyNoise, real `_Framer`/`_Record`) built by the REAL
   `Connector.build_protocol`, in-memory byte pipes, and the real `Connector.add_candidate -> consider ->
   eventual turn -> accept -> select_and_stop_remaining` path.  Records that reach a new connection after the
   KCM but before that turn are parked in the real `_inbound_record_queue` (bursts coalesced with the KCM in
   one `dataReceived`), and drained by the real `select()`.

Delivery, loss point, replacement, flow-control pauses and listener registration are scheduled by the case;
records travel as real Open/Data/Close/Ack and enter the peer through the real `Manager.got_record`.
"""
from unittest import mock

from twisted.internet.interfaces import IHalfCloseableProtocol, ITransport, IConsumer
from twisted.internet.task import Clock, Cooperator
from zope.interface import alsoProvides, implementer

import wormhole
from wormhole import _rendezvous
from wormhole._dilation import connector as dconn
from wormhole._dilation.roles import LEADER
from twisted.internet import defer
from wormhole._dilation.connection import (Open, Data, Close, Ack, KCM, parse_record, NOISE_MAX_CIPHERTEXT)
from wormhole._dilation.manager import Manager, DILATION_VERSIONS
from wormhole._interfaces import ISend
from wormhole.eventual import EventualQueue

from wormhole._dilation._noise import NoiseInvalidMessage

from ..core import Result
from ..fakes import hx, ToyNoise
from ..util import automat_state


def hxs(b):
    """as `WV.C10.showBytes`: long payloads as length, byte sum, first and last four bytes"""
    if len(b) <= 40:
        return hx(b)
    return f"#{len(b)}.{sum(b)}.{hx(b[:4])}.{hx(b[-4:])}"


class LimitedNoise(ToyNoise):
    """ToyNoise with the per-message limit of Noise: a message (ciphertext) is at most 65535 bytes"""

    def encrypt(self, m):
        if len(m) + 16 > 65535 + 16:     # the library refuses plaintexts above 65535 bytes outright
            raise NoiseInvalidMessage("message too long")
        return super().encrypt(m)

    def decrypt(self, c):
        if len(c) > 65535:
            raise NoiseInvalidMessage("message too long")
        return super().decrypt(c)


class TurnFailed(Exception):
    """the Connector's / the connection's eventual turn did not do what the schedule expects (an exception inside
    an eventual turn is logged by EventualQueue, not raised)"""

ID = "C10"
PROP_MODULES = ["WV.Props.C10"]
# translation validation of the Dilation method bodies (tools/extract.py::extract_pyir_dil -> WV/Gen/PyIRDil.lean,
# interpreter WV/Model/PyIR.lean): part of the check as soon as the module is installed (agents/deepPyIRdil_integration.md)
import os as _os
if _os.path.exists(_os.path.join(_os.path.dirname(_os.path.dirname(_os.path.dirname(_os.path.abspath(__file__)))),
                                 "lean", "WV", "Props", "PyIR_C10.lean")):
    PROP_MODULES.append("WV.Props.PyIR_C10")
# [deepDil2] second part of the Dilation data path (agents/deepDil2_integration.md)
if _os.path.exists(_os.path.join(_os.path.dirname(_os.path.dirname(_os.path.dirname(_os.path.abspath(__file__)))),
                                 "lean", "WV", "Props", "PyIRDil2_C10.lean")):
    PROP_MODULES.append("WV.Props.PyIRDil2_C10")
TRUSTED = [
    "below the Manager's ISend the mailbox connection is a stub (ClientService replaced inside the harness process): the "
    "dilation key, the peer's versions and its PLEASE are handed to the Manager built by wormhole.create().dilate() "
    "directly (the mailbox protocol and key agreement are C01–C03/C09's subject); listeners are registered through "
    "Manager._register_subprotocol_factory, the body of SubchannelListenerEndpoint.listen",
    "L2 connection = authenticated FIFO of whole records (C12): loss points are record boundaries (a partially "
    "received frame is never a record); in world l2 the real DilatedConnectionProtocol/_Record/_Framer carry the "
    "records over ToyNoise (noiseprotocol is not installed), whole frames per delivery",
    "one L2 connection at a time per side and flow-control calls only from the registered transport (C11, Twisted "
    "producer contract) — the model's `enabledA`; world l2 creates one link at a time and lets a side lose a link "
    "only after both ends selected it (the races around candidate links are C11's subject)",
    "the mailbox-level reconnect handshake is replaced by calling rx_RECONNECT / rx_RECONNECTING right after a loss "
    "that REACHED the Manager (a loss the Manager never hears of is not repaired by the harness); timers are not "
    "advanced (C16)",
    "subchannel producers (C15) and the local SubChannel state machine of the sending application (C13) are not part "
    "of this model: the sender calls Manager.send_open/send_data/send_close or the real connector_for().connect() "
    "with a protocol that writes / closes inside connectionMade (every such write is one `write` event of the "
    "model, in the order Manager._queue_and_send was called; the oracle compares with the order the APPLICATION "
    "acted in); the receiver's protocols are IHalfCloseableProtocol listeners (a remote close never makes the "
    "receiver write), the ones for subprotocol g greet from inside connectionMade",
    "ToyNoise with the 65535-byte per-message limit of Noise (LimitedNoise)",
]
RULE = ("schedules of open/write/close on <=3 subchannels per direction (five subprotocol names, two of them valid but "
        "not NFC: decomposed accent, Hangul jamo + ANGSTROM SIGN + ligature, the identical str on both sides; one whose "
        "receiving protocols pause their subchannel from inside dataReceived and resume late or never, with "
        "DATA…DATA,CLOSE bursts behind the record that triggers the pause), the "
        "connection dying between an end's KCM and its Connector's accept turn (leader and follower, first and later "
        "generations; exactly one eventual turn of the real EventualQueue, the loss one turn later), both sides writing on "
        "the same subchannel (the listening application answers through its protocol and closes peer-opened "
        "subchannels, also as its very first record, with asymmetric loss around the close), real connect() calls "
        "with re-entrant protocols on either side, write sizes at the chunking boundaries of the record layer "
        "(65510/65511/65526/65527, 2x, 3x), interleaved with "
        "use_connection / connection loss / transport pause+resume (pause landing inside the replay loop) / delivery of "
        "single records and acks / records parked on a not yet selected connection / late listener registration, every "
        "schedule closed by registering all listeners and a final stable generation that drains; corpus of boundary "
        "schedules, a realistic phase generator and a free generator (world rec), a generation-structured generator with "
        "bursts parked behind the KCM (world l2, real DilatedConnectionProtocol + Connector); thorough adds the "
        "exhaustive loss-point enumeration (4 records x 2 generations x loss points of data and acks x pause budgets) "
        "and the exhaustive parked-burst enumeration; non-trivial = a replay, a dropped duplicate, a lost in-flight "
        "record or ack, a pause inside the drain, a parked burst or a late listener happened; distinct = distinct "
        "canonical traces")

NFD = "cafe\u0301"                       # valid, but not NFC (decomposed accent)
JAMO = "\u1112\u1161\u11ab\u212b\ufb01"     # Hangul jamo + ANGSTROM SIGN (NFC rewrites both) + a ligature (NFC keeps it)
PAUSER = "p"           # its listening protocols pause their transport from inside dataReceived (see PHP)
NAMES = ["a", "é", "g", NFD, JAMO, PAUSER]
GREETER = "g"          # listened for by A only, from the start; its protocols write from connectionMade


# ---------------------------------------------------------------------------
# the application on the receiving side

@implementer(IHalfCloseableProtocol)
class HP:
    def __init__(self, side):
        self.side = side
        self.log = None
        self.transport = None

    def makeConnection(self, t):
        self.transport = t
        scid = t._scid
        self.log = self.side.app_log.setdefault(scid, [])
        self.log.append(("open", scid, t.getPeer().subprotocol))
        self.side.protocols[scid] = self

    def dataReceived(self, d):
        self.log.append(("data", self.transport._scid, bytes(d)))

    def readConnectionLost(self):
        self.log.append(("close", self.transport._scid, None))

    def writeConnectionLost(self):  # pragma: no cover
        pass

    def connectionLost(self, why=None):  # pragma: no cover
        self.log.append(("lost", self.transport._scid, None))


class GHP(HP):
    """a listening protocol that talks first: writes its greeting from inside connectionMade (re-entrant write while
    Manager.got_record is still on the stack)"""

    def makeConnection(self, t):
        HP.makeConnection(self, t)
        g = bytes([t._scid % 256, 0x67])
        t.write(g)          # (the harness' write hook records it as issued by this side)


class PHP(HP):
    """a slow consumer: after every chunk it is given it pauses its transport (the subchannel) from inside
    dataReceived, and resumes when the schedule says so — or never.  Records that were already read from the socket
    (the rest of a burst, a replay parked behind the KCM, a CLOSE) still reach it: pausing only stops the NEXT read of
    the L2 connection."""

    def dataReceived(self, d):
        HP.dataReceived(self, d)
        if not getattr(self, "paused", False):
            self.paused = True
            self.side.paused_protocols.append(self)
            self.transport.pauseProducing()

    def resume(self):
        if getattr(self, "paused", False):
            self.paused = False
            self.transport.resumeProducing()


class CP:
    """the protocol of a CONNECTING application: writes its greeting(s), and possibly closes, from inside
    connectionMade, i.e. while SubchannelConnectorEndpoint.connect() is still on the stack"""

    def __init__(self, side, greetings, close):
        self.side = side
        self.greetings = greetings
        self.close = close
        self.transport = None

    def makeConnection(self, t):
        self.transport = t
        self.scid = t._scid
        self.log = self.side.app_log.setdefault(t._scid, [])
        for g in self.greetings:
            t.write(g)
        if self.close:
            t.loseConnection()

    def dataReceived(self, d):
        self.log.append(("data", self.scid, bytes(d)))

    def connectionLost(self, why=None):
        self.log.append(("close", self.scid, None))


class CFactory:
    def __init__(self, side, greetings, close):
        self.args = (side, greetings, close)

    def buildProtocol(self, addr):
        return CP(*self.args)


class Factory:
    def __init__(self, side, greeter=False):
        self.side = side
        self.greeter = greeter

    def buildProtocol(self, addr):
        if addr.subprotocol == PAUSER:
            return PHP(self.side)
        return GHP(self.side) if self.greeter else HP(self.side)

    def doStart(self):  # pragma: no cover
        pass

    def doStop(self):  # pragma: no cover
        pass


# ---------------------------------------------------------------------------
# world "rec": fake connections

class _Transport:
    def __init__(self):
        self.producer = None

    def registerProducer(self, p, streaming):
        assert streaming is True
        self.producer = p

    def unregisterProducer(self):
        self.producer = None


class FakeConn:
    """What Outbound/Inbound/Manager need from a DilatedConnectionProtocol.  The transport pauses its producer
    from inside the `budget`-th send_record (0 = never) — same rule as `WV.C10.connSend`."""

    def __init__(self, budget):
        self.out = []
        self.budget = budget
        self.transport = _Transport()

    def send_record(self, r):
        self.out.append(r)
        if self.budget == 1:
            self.budget = 0
            p = self.transport.producer
            if p is None:
                raise RuntimeError("harness: send_record on a connection without registered producer")
            p.pauseProducing()
        elif self.budget > 0:
            self.budget -= 1

    def pauseProducing(self):
        pass

    def resumeProducing(self):
        pass

    def disconnect(self):
        pass


# ---------------------------------------------------------------------------
# world "l2": real DilatedConnectionProtocol over in-memory pipes

@implementer(ITransport, IConsumer)
class Pipe:
    """the transport of one end of a link: every write is one token (prologue, handshake frame, record frame).
    Tokens written while no producer is registered (prologue, handshake, KCM) are `hidden`: they are L2
    establishment, not part of the model's `out`.  Flow control as FakeConn: the budget-th write after
    registerProducer pauses the producer from inside the write."""

    def __init__(self):
        self.tokens = []        # [hidden?, bytes]  not yet read by the peer
        self.producer = None
        self.budget = 0
        self.lost = False

    def write(self, data):
        self.tokens.append([self.producer is None, bytes(data)])
        if self.producer is not None:
            if self.budget == 1:
                self.budget = 0
                self.producer.pauseProducing()
            elif self.budget > 0:
                self.budget -= 1

    def writeSequence(self, seq):  # pragma: no cover
        for d in seq:
            self.write(d)

    def registerProducer(self, p, streaming):
        assert streaming is True
        self.producer = p

    def unregisterProducer(self):
        self.producer = None

    def loseConnection(self):
        self.lost = True

    def pauseProducing(self):
        pass

    def resumeProducing(self):
        pass

    def stopProducing(self):  # pragma: no cover
        pass

    def getPeer(self):
        return "peer"

    def getHost(self):
        return "host"


def decode_token(tok):
    """the record inside a ToyNoise frame (ToyNoise is `m ++ tag`, per packet)"""
    body = tok[4:]
    msg = b""
    for i in range(0, len(body), NOISE_MAX_CIPHERTEXT):
        msg += body[i:i + NOISE_MAX_CIPHERTEXT][:-16]
    return parse_record(msg)


class Link:
    def __init__(self, A, B):
        self.dcp = {}
        self.pipe = {}
        for s in (A, B):
            p = s.mgr._connector.build_protocol("addr", "link")
            t = Pipe()
            self.dcp[s.name] = p
            self.pipe[s.name] = t
            p.makeConnection(t)
        self.gone = {"A": False, "B": False}       # connectionLost delivered to this end
        self.deadsrc = {"A": False, "B": False}    # this end was already dead when it started writing records
        # prologues, handshakes, the follower's KCM: everything hidden is pumped until quiet; the leader's DCP
        # ends up `selecting` (its Connector has an accept turn queued), the follower's waits for the leader's KCM
        for _ in range(6):
            for x, y in (("A", "B"), ("B", "A")):
                toks = self.pipe[x].tokens
                if toks:
                    data = b"".join(t[1] for t in toks)
                    del toks[:]
                    self.dcp[y].dataReceived(data)

    def state(self, x):
        return automat_state(self.dcp[x])


# ---------------------------------------------------------------------------

class _StubService:
    """stands in for twisted.application.internet.ClientService under RendezvousConnector: never connects"""

    def __init__(self, ep, factory, *a, **kw):
        pass

    def startService(self):
        pass

    def stopService(self):
        return defer.succeed(None)

    def whenConnected(self, failAfterFailures=None):
        return defer.Deferred()


class SideH:
    def __init__(self, name, leader):
        self.name = name
        self.leader = leader
        self.clock = Clock()
        self.eq = EventualQueue(self.clock)
        self.coop = Cooperator(terminationPredicateFactory=lambda: (lambda: True), scheduler=self.eq.eventually)
        # the Manager is built by the PUBLIC entry point, with its defaults: wormhole.create(…, dilation=True).dilate()
        # -> Boss.dilate -> Dilator.dilate -> Manager(…).  The mailbox connection below it is a stub (the mailbox
        # protocol is C01–C03/C09's subject): key, versions and the peer's PLEASE are handed to the Manager directly
        with mock.patch.object(_rendezvous.internet, "ClientService", _StubService):
            self.wormhole = wormhole.create("verif.c10/harness", "ws://127.0.0.1:4000/v1", self.clock,
                                            dilation=True, _eventual_queue=self.eq)
        self.api = self.wormhole.dilate()
        m = self.wormhole._boss._D._manager
        assert m._api is self.api
        m.got_dilation_key(b"\x00" * 32)
        m.got_wormhole_versions({"can-dilate": ["ged"]})
        # roles: dilation sides are random hex strings; A's peer claims the lowest possible side, B's the highest
        m.rx_PLEASE({"side": "0" * 16 if leader else "z" * 16})          # -> CONNECTING
        assert (m._my_role is LEADER) == leader
        self.mgr = m
        self.ob = m._outbound
        self.ib = m._inbound
        self.conn = None        # rec: FakeConn;  l2: the Pipe the Manager's connection writes to
        self.chan = []          # rec: `out` of the current / most recent connection
        self.link = None        # l2: the link this side's Manager uses / used last
        self.issued = []        # (kind, scid, payload) in call order
        self.handle_log = []    # calls of Inbound.handle_open/data/close, in order
        self.app_log = {}       # scid -> what that subchannel's protocol was told
        self.factory = Factory(self)
        self.gfactory = Factory(self, greeter=True)
        self.hook = None        # called around every Manager._queue_and_send: (phase, record_type, args)
        qs = m._queue_and_send

        def queue_and_send(record_type, *args):
            if self.hook:
                self.hook("before", self, record_type, args)
            qs(record_type, *args)
            if self.hook:
                self.hook("after", self, record_type, args)
        m._queue_and_send = queue_and_send
        self.ghook = None       # called around every Manager.got_record: (phase, side, record)
        gr = m.got_record

        def got_record(r):
            if self.ghook:
                self.ghook("before", self, r)
            gr(r)
            if self.ghook:
                self.ghook("after", self, r)
        m.got_record = got_record
        self.listening = []
        self.protocols = {}     # scid -> the listening protocol built for a peer-opened subchannel
        self.paused_protocols = []   # PHP instances that paused their transport and have not been resumed
        self.connected_scids = []   # scids this side's real connect() allocated, in order
        self.pclosed = set()    # peer-opened scids this side has sent CLOSE for
        ib = self.ib
        ho, hd, hc = ib.handle_open, ib.handle_data, ib.handle_close

        def handle_open(scid, subprotocol):
            self.handle_log.append(("open", scid, subprotocol))
            return ho(scid, subprotocol)

        def handle_data(scid, data):
            self.handle_log.append(("data", scid, bytes(data)))
            return hd(scid, data)

        def handle_close(scid):
            self.handle_log.append(("close", scid, None))
            return hc(scid)
        ib.handle_open, ib.handle_data, ib.handle_close = handle_open, handle_data, handle_close

    def connected(self):
        return self.ob._connection is not None


def show_item(kind, seq, scid, payload):
    if kind == "open":
        return f"open:{seq}:{scid}:{hx(payload.encode('utf8'))}"
    if kind == "data":
        return f"data:{seq}:{scid}:{hxs(payload)}"
    return f"close:{seq}:{scid}"


def show_wire(r):
    if isinstance(r, Open):
        return show_item("open", r.seqnum, r.scid, r.subprotocol)
    if isinstance(r, Data):
        return show_item("data", r.seqnum, r.scid, r.data)
    if isinstance(r, Close):
        return show_item("close", r.seqnum, r.scid, None)
    if isinstance(r, Ack):
        return f"ack:{r.resp_seqnum}"
    raise TypeError(r)


def show_ev(e):
    k, _, p = e
    if k == "open":
        return "o"
    if k == "data":
        return "d" + hxs(p)
    if k == "close":
        return "c"
    return "L"


def show_sub(s, scid, sc):
    pd = getattr(sc, "_pending_remote_data", [])
    pc = getattr(sc, "_pending_remote_close", False)
    return (f"{scid}/{hx(sc._peer_addr.subprotocol.encode('utf8'))}/{automat_state(sc)}/"
            f"{','.join(show_ev(e) for e in s.app_log.get(scid, []))}/{','.join(hxs(d) for d in pd)}/{1 if pc else 0}")


class World:
    """what differs between the two worlds: the channel and the connection life cycle"""

    def __init__(self, kind):
        self.kind = kind
        self.A = SideH("A", True)
        self.B = SideH("B", False)
        self.sides = {"A": self.A, "B": self.B}
        self.link = None        # l2: the newest link

    def peer(self, s):
        return self.B if s is self.A else self.A

    # ---- in flight from s to its peer, as records
    def out(self, s):
        if self.kind == "rec":
            return list(s.chan)
        if s.link is None:
            return []
        return [decode_token(t[1]) for t in s.link.pipe[s.name].tokens if not t[0]]

    def parked(self, s):
        if self.kind == "rec" or self.link is None:
            return []
        p = self.link.dcp[s.name]
        return list(p._inbound_record_queue)

    def budget(self, s):
        if s.ob._connection is None:
            return 0
        return s.conn.budget

    def show_side(self, s):
        ob = s.ob
        disp = " ".join(show_item(k, i, c, p) for i, (k, c, p) in enumerate(s.handle_log))
        # NB the seqnum printed for a dispatched record is its position: the real handle_* calls do not carry the
        # seqnum; the model prints the record's own seqnum.  They agree exactly when dispatch is gap- and
        # duplicate-free, which is the property; otherwise the line differs and the oracle has already fired.
        # only the subchannels the PEER opened (its scid parity): the ones this side connected itself are the
        # sending application's, not part of the receiving side's L4 state
        mine = 1 if s.leader else 0
        subs = " ".join(show_sub(s, scid, sc) for scid, sc in s.ib._open_subchannels.items() if scid % 2 != mine)
        return (f"q=[{' '.join(str(r.seqnum) for r in ob._outbound_queue)}] "
                f"u=[{' '.join(str(r.seqnum) for r in ob._queued_unsent)}] n={ob._next_outbound_seqnum} "
                f"c={1 if ob._connection is not None else 0} p={1 if ob._paused else 0} "
                f"bud={self.budget(s)} "
                f"out=[{' '.join(show_wire(r) for r in self.out(s))}] "
                f"park=[{' '.join(show_wire(r) for r in self.parked(s))}] "
                f"h={s.ib._highest_inbound_acked} disp=[{disp}] "
                f"f=[{' '.join(hx(n.encode('utf8')) for n in s.listening)}] subs=[{subs}]")

    def show(self):
        return "A{" + self.show_side(self.A) + "} B{" + self.show_side(self.B) + "}"

    # ---- l2 helpers
    def link_alive_for(self, s):
        """the newest link exists and this end has not been lost"""
        return self.link is not None and not self.link.gone[s.name]

    def can_use(self, s):
        if s.connected():
            return False
        if self.kind == "rec":
            return True
        other = self.peer(s)
        if s.leader:
            if self.link is not None and not self.link.gone["A"] and self.link.dcp["A"]._manager is None:
                return True                      # candidate waiting for its accept turn
            return not other.connected()         # a new link needs both Managers in CONNECTING
        # follower: the leader must have selected the newest link (its KCM is written) and we have not yet
        lk = self.link
        return (lk is not None and not lk.gone["B"] and lk.dcp["B"]._manager is None
                and lk.dcp["A"]._manager is not None and not lk.gone["A"])

    def use(self, s, budget, dead=False):
        """dead: the TCP connection dies after this end parsed the peer's KCM and before its Connector's accept turn
        runs (dataReceived(KCM) and connectionLost in the same reactor iteration): exactly ONE eventual turn is run here
        (accept -> select -> connection_made on the dead transport); the loss reaches the Manager a turn later"""
        if self.kind == "rec":
            c = FakeConn(budget)
            s.conn = c
            s.chan = c.out
            s.mgr.connector_connection_made(c)
            return
        if s.leader and not (self.link is not None and not self.link.gone["A"] and self.link.dcp["A"]._manager is None):
            self.link = Link(self.A, self.B)
        lk = self.link
        if not s.leader:
            self.feed_hidden(s)                  # the leader's KCM, if it has not been read yet
        lk.pipe[s.name].budget = budget
        if dead:
            lk.gone[s.name] = True
            lk.deadsrc[s.name] = True            # what this end writes from now on goes nowhere
            lk.dcp[s.name].connectionLost(None)
            if s.leader and not lk.gone["B"]:    # the follower's end never saw a KCM: it just goes away
                lk.gone["B"] = True
                lk.dcp["B"].connectionLost(None)
                self.B.eq.flush_sync()
            dc = s.eq._timer                     # ONE turn (Clock.advance(0) would also run the turns it queues)
            if dc is None:
                raise TurnFailed("no eventual turn is queued for the accept")
            s.clock.calls.remove(dc)
            dc.called = 1
            dc.func(*dc.args, **dc.kw)
        else:
            s.eq.flush_sync()                    # the Connector's deferred turn: accept -> select -> connection_made
        s.conn = lk.pipe[s.name]                 # (only now: while select() drains the parked records the side's
        s.link = lk                              #  stale in-flight content is still that of its previous link)
        if not s.connected():
            raise TurnFailed("the accept turn did not select the link")

    def feed_hidden(self, s):
        """hidden tokens (KCM) at the head of the pipe towards s are read; returns the bytes if they were NOT
        fed because the caller wants to coalesce them with a record"""
        lk = s.link if (s.link is not None and not s.link.gone[s.name] and s.connected()) else self.link
        other = self.peer(s)
        toks = lk.pipe[other.name].tokens
        data = b""
        while toks and toks[0][0]:
            data += toks.pop(0)[1]
        if data:
            lk.dcp[s.name].dataReceived(data)

    def recv_link(self, s):
        """the link whose bytes from the peer can reach s now, or None"""
        other = self.peer(s)
        lk = other.link                          # the link the peer's records are written to
        if self.kind == "rec":
            return None
        if lk is None or lk.gone[s.name] or lk.deadsrc[other.name]:
            return None
        return lk

    def can_lose(self, s):
        if not s.connected():
            return False
        if self.kind == "rec":
            return True
        lk = s.link
        if lk.gone[s.name]:
            return True                          # this end is already dead: the notification is on its way
        if lk.pipe["A"].lost or lk.pipe["B"].lost:
            return True                          # an end asked for loseConnection(): the link is going down
        return lk.dcp["A"]._manager is not None and lk.dcp["B"]._manager is not None

    def reap(self):
        """l2: an end whose protocol called transport.loseConnection() (the receiver refused what it read).
        Returns the sides whose Manager must now be told (connectionLost on a selected connection)."""
        todo = []
        lk = self.link
        if self.kind != "l2" or lk is None:
            return todo
        if not (lk.pipe["A"].lost or lk.pipe["B"].lost):
            return todo
        for x in "AB":
            s = self.sides[x]
            if lk.gone[x]:
                continue
            if s.connected() and s.link is lk:
                todo.append(x)
            else:
                lk.gone[x] = True                # a candidate that never got selected just goes away
                lk.dcp[x].connectionLost(None)
                s.eq.flush_sync()
        return todo

    def lose(self, s):
        if self.kind == "rec":
            s.mgr.connector_connection_lost()
        else:
            lk = s.link
            if not lk.gone[s.name]:
                lk.gone[s.name] = True
                lk.dcp[s.name].connectionLost(None)  # fires when_disconnected -> eventual turn
            s.eq.flush_sync()                    # -> manager.connector_connection_lost()
            if s.connected():
                raise TurnFailed("connectionLost did not reach the manager")
        s.conn = None
        # back to CONNECTING (with a fresh real Connector in world l2)
        if s.leader:
            s.mgr.rx_RECONNECTING()
        else:
            s.mgr.rx_RECONNECT()


SUBS = NAMES


def run_case(case):
    kind = case.get("world", "rec")
    # every case starts from a clean process: if SubChannel keeps mutable state on the CLASS (it must not), a
    # previous case would leak into this one and a replay would not reproduce in a fresh process
    from wormhole._dilation.subchannel import SubChannel
    for v in vars(SubChannel).values():
        if isinstance(v, list):
            del v[:]
    with mock.patch.object(dconn, "build_noise", LimitedNoise), \
            mock.patch.object(dconn.Connector, "start", lambda self: None):
        return _run(case, kind)


def _run(case, kind):
    W = World(kind)
    A, B = W.A, W.B
    sides = W.sides
    lines, exp, viol, tags = [], [], [], set()
    dead = [None]
    tags.add("world:" + kind)

    def check_prefix(where):
        for s, peer in ((A, B), (B, A)):
            got = peer.handle_log
            if got != s.issued[:len(got)]:
                viol.append(("dispatch-not-prefix",
                             f"{where}: {peer.name} dispatched {fmt(got)} which is not a prefix of what {s.name} issued {fmt(s.issued)}"))
                return False
            for scid, log in peer.app_log.items():
                want = [i for i in s.issued if i[1] == scid]
                if log != want[:len(log)]:
                    viol.append(("subchannel-callbacks-not-prefix",
                                 f"{where}: the protocol of subchannel {scid} on {peer.name} saw {fmt(log)}, issued for it {fmt(want)}"))
                    return False
        return True

    emitted = []          # (line, expected) produced by Manager._queue_and_send calls during the current op
    first_snapshot = [None]

    announced = [None]    # the side whose Manager writes were announced (appended to `issued`) by the current op
    in_use = [None]       # the side whose Connector turn (`use`) is running: every got_record in it is an `unpark`
    cur_unpark = [None]

    def ghook(phase, side, r):
        if in_use[0] != side.name:
            return
        if phase == "before":
            cur_unpark[0] = [f"unpark {side.name}", None, show_wire(r)]
            emitted.append(cur_unpark[0])
        else:
            if cur_unpark[0] is not None and cur_unpark[0][1] is None:
                cur_unpark[0][1] = cur_unpark[0][2] + " " + W.show()
            cur_unpark[0] = None
    A.ghook = B.ghook = ghook

    def hook(phase, side, record_type, args):
        if phase == "before":
            if cur_unpark[0] is not None and cur_unpark[0][1] is None:
                cur_unpark[0][1] = cur_unpark[0][2] + " " + W.show()   # the state the record's handling left, before the reaction
            elif first_snapshot[0] is None:
                first_snapshot[0] = W.show()
            if announced[0] != side.name:
                # a write nobody scripted: the SubChannel machine or a protocol reacting to what it was told
                if record_type is Open:
                    side.issued.append(("open", args[0], args[1]))
                elif record_type is Data:
                    side.issued.append(("data", args[0], bytes(args[1])))
                else:
                    side.issued.append(("close", args[0], None))
                tags.add("reactive-write")
            return
        x = side.name
        if record_type is Open:
            line = f"write {x} open {args[0]} {hx(args[1].encode('utf8'))}"
        elif record_type is Data:
            line = f"write {x} data {args[0]} {hx(bytes(args[1]))}"
        else:
            line = f"write {x} close {args[0]}"
        emitted.append([line, "ok " + W.show()])
    A.hook = B.hook = hook

    def do(op):
        """returns False when the op is not enabled now (skipped, nothing emitted)"""
        k, x = op[0], op[1]
        s = sides[x]
        peer = W.peer(s)
        res = "ok"
        line = None           # the op's own model line (None: the op is nothing but Manager writes)
        announced[0] = None
        if k in ("panswer", "pclose"):
            # the application of x acts on the n-th subchannel the PEER connected: it answers through the protocol
            # it was given (or, for pclose, sends CLOSE for it)
            n = op[2]
            if n >= len(peer.connected_scids):
                return False
            scid = peer.connected_scids[n]
            if scid in s.pclosed:
                return False
            pr = s.protocols.get(scid)
            if pr is None:
                return False                     # the application has no protocol for it yet (OPEN not delivered, or no listener)
            announced[0] = x
            if k == "panswer":
                d = bytes.fromhex(op[3])
                s.issued.append(("data", scid, d))
                if not s.ob._outbound_queue and s.ob._next_outbound_seqnum == 0:
                    tags.add("first-record-is-an-answer")
                f = lambda: pr.transport.write(d)
            else:
                s.issued.append(("close", scid, None))
                s.pclosed.add(scid)
                if s.ob._next_outbound_seqnum == 0:
                    tags.add("first-record-is-an-answer")
                if any(isinstance(r, Data) and r.scid == scid for r in peer.ob._outbound_queue):
                    tags.add("close-while-peer-has-unacked-data")
                f = lambda: s.mgr.send_close(scid)
        elif k == "write":
            announced[0] = x
            what = op[2]
            if what == "open":
                scid, sub = op[3], op[4]
                f = lambda: s.mgr.send_open(scid, sub)
                item = ("open", scid, sub)
            elif what == "data":
                scid, d = op[3], bytes.fromhex(op[4]) if not isinstance(op[4], int) else bytes((i * 31 + 7) % 256 for i in range(op[4]))
                f = lambda: s.mgr.send_data(scid, d)
                item = ("data", scid, d)
                if len(d) > 65000:
                    tags.add("big-write")
            else:
                scid = op[3]
                f = lambda: s.mgr.send_close(scid)
                item = ("close", scid, None)
            s.issued.append(item)
            if s.connected() and s.ob._queued_unsent:
                tags.add("write-behind-replay")
            if not s.connected():
                tags.add("write-while-down")
        elif k == "connect":
            # the real SubchannelConnectorEndpoint.connect() with a protocol that writes / closes from inside
            # connectionMade.  What the peer must see is what the APPLICATION did, in its order: open, greetings, close
            name, greetings, close = op[2], [bytes.fromhex(g) for g in op[3]], op[4]
            if not s.mgr._made_first_connection or s.eq._calls:
                return False
            announced[0] = x
            scid = s.mgr._next_subchannel_id
            s.connected_scids.append(scid)
            s.issued.append(("open", scid, name))
            for g in greetings:
                s.issued.append(("data", scid, g))
            if close:
                s.issued.append(("close", scid, None))
            tags.add("connect:reentrant" if (greetings or close) else "connect:plain")
            result = []

            def f():
                d = s.mgr._api.connector_for(name).connect(CFactory(s, greetings, close))
                d.addBoth(result.append)
                s.eq.flush_sync()                # when_fired() answers through the eventual queue
                if not result or not isinstance(result[0], CP):
                    raise TurnFailed(f"connect() did not finish: {result}")
        elif k == "presume":
            # the application of x is ready again: every protocol that paused its subchannel resumes it (no model line:
            # neither pausing nor resuming a subchannel changes what is dispatched or shown at HEAD)
            if not s.paused_protocols:
                return False
            tags.add("subchannel-resumed")

            def f():
                ps, s.paused_protocols[:] = list(s.paused_protocols), []
                for pr in ps:
                    pr.resume()
        elif k == "listen":
            name = op[2]
            if name in s.listening:
                return False
            if name == GREETER and x != "A":
                return False
            line = f"listen {x} {hx(name.encode('utf8'))}"
            pend = [sc for sc in s.ib._open_subchannels.values()
                    if sc._peer_addr.subprotocol == name and automat_state(sc) == "unconnected"]
            if pend:
                tags.add("late-listener")
            if len([sc for sc in pend if getattr(sc, "_pending_remote_data", None)]) >= 2:
                tags.add("late-listener:>=2-with-queued-data")

            def f():
                s.listening.append(name)
                s.mgr._register_subprotocol_factory(name, s.gfactory if name == GREETER else s.factory)
        elif k == "use":
            if not W.can_use(s):
                return False
            budget = op[2]
            line = f"use {x} {budget}"
            if W.out(s):
                tags.add("inflight-lost:" + ("data" if any(not isinstance(r, Ack) for r in W.out(s)) else "ack"))
            if s.ob._outbound_queue:
                tags.add("replay")
            npark = len([r for r in W.parked(s) if not isinstance(r, Ack)])
            if npark:
                tags.add("parked-burst:" + ("1" if npark == 1 else ">=2"))
            deaduse = (len(op) > 3 and op[3] == "dead" and kind == "l2")
            if deaduse:
                tags.add("loss-between-KCM-and-accept:" + ("leader" if s.leader else "follower"))

            def f():
                in_use[0] = x if kind == "l2" else None
                try:
                    W.use(s, budget, dead=deaduse)
                finally:
                    in_use[0] = None
        elif k == "lose":
            if not s.connected():
                if len(op) > 2 and op[2] == "force" and kind == "rec":      # adversarial: stop without a connection
                    line = f"lose {x}"
                    f = lambda: s.ob.stop_using_connection()
                else:
                    return False
            else:
                if not W.can_lose(s):
                    return False
                if kind == "l2" and s.link.gone[x]:
                    # this end died before its Connector's turn: the loss is delivered by the next eventual turn
                    s.eq.flush_sync()
                    if s.connected():
                        tags.add("loss-never-reached-the-manager")
                        return False             # nothing happened: the Manager still believes in the connection
                    f = lambda: W.lose(s)
                else:
                    f = lambda: W.lose(s)
                line = f"lose {x}"
        elif k == "pause":
            if not s.connected():
                return False
            line = f"pause {x}"
            f = lambda: s.conn.producer.pauseProducing() if kind == "l2" else s.conn.transport.producer.pauseProducing()
        elif k == "resume":
            if not s.connected():
                return False
            budget = op[2]
            line = f"resume {x} {budget}"

            def f():
                s.conn.budget = budget
                (s.conn.producer if kind == "l2" else s.conn.transport.producer).resumeProducing()
        elif k == "deliver":
            if kind == "rec":
                if not peer.chan:
                    return False
                line = f"deliver {x}"
                r = peer.chan[0]
                f = lambda: s.mgr.got_record(peer.chan.pop(0))
            else:
                lk = W.recv_link(s)
                if lk is None or lk.pipe[x].lost:
                    return False
                toks = lk.pipe[peer.name].tokens
                recs = [t for t in toks if not t[0]]
                if not recs:
                    return False
                # hidden tokens ahead of the record (the leader's KCM) arrive in the same chunk
                data = b""
                while toks[0][0]:
                    data += toks[0][1]
                    toks.pop(0)
                st_before = lk.state(x)
                if st_before == "unselected" and not data:
                    return False                 # KCM not written yet: nothing can be read
                r = decode_token(toks[0][1])
                tok = toks[0][1]
                parked = (st_before in ("unselected", "selecting"))
                line = ("park " if parked else "deliver ") + x
                if parked:
                    tags.add("op:park")
                    if data:
                        tags.add("coalesced-with-KCM")

                def f():
                    toks.pop(0)
                    lk.dcp[x].dataReceived(data + tok)
            res = show_wire(r)
            if isinstance(r, (Data, Close)):
                pr = s.protocols.get(r.scid)
                if pr is not None and getattr(pr, "paused", False):
                    tags.add("record-for-paused-subchannel:" + ("close" if isinstance(r, Close) else "data"))
            if isinstance(r, Ack):
                if s.ob._queued_unsent and s.ob._queued_unsent[0].seqnum <= r.resp_seqnum:
                    tags.add("ack-retires-unsent")
            else:
                hw = s.ib._highest_inbound_acked
                if isinstance(hw, int) and r.seqnum <= hw:
                    tags.add("duplicate-dropped")
                if not s.connected():
                    tags.add("ack-not-sent")
        else:
            raise ValueError(op)
        tags.add("op:" + k)
        del emitted[:]
        first_snapshot[0] = None
        failed = None
        try:
            f()
        except Exception as e:  # a Python exception ends the case (the model stops there too)
            failed = type(e).__name__
        # the op's own line first (its state is the one seen when the first re-entrant write began), then one
        # `write` line per Manager._queue_and_send the op caused, in call order
        if k == "use" and kind == "l2":
            # the Connector's turn: one `unpark` per parked record (with the writes its handling caused), then the
            # connection is handed to the Manager
            for ent in emitted:
                lines.append(ent[0])
                exp.append(ent[1] if ent[1] is not None else (failed or "?"))
            if any(ent[0].startswith("write") for ent in emitted):
                tags.add("reentrant-write-in:use")
            if not failed:
                lines.append(line)
                exp.append(res + " " + W.show())
            del emitted[:]
            if failed:
                line = None
        elif line is not None:
            lines.append(line)
            if failed and not emitted:
                exp.append(failed)
            else:
                if emitted:
                    tags.add("reentrant-write-in:" + k)
                exp.append(res + " " + (first_snapshot[0] if emitted else W.show()))
        for ent in emitted:
            lines.append(ent[0])
            exp.append(ent[1])
        if failed:
            if line is None or emitted:
                lines.append(line or "write-failed")
                exp.append(failed)
            dead[0] = failed
            tags.add("exception:" + failed)
            return True
        if k == "use" and s.ob._queued_unsent:
            tags.add("paused-inside-replay")
        check_prefix(lines[-1])
        if k == "use" and kind == "l2" and len(op) > 3 and op[3] == "dead":
            do(["lose", x])
        for y in W.reap():
            tags.add("receiver-dropped-connection")
            dropped[0] += 1
            do(["lose", y])
        return True

    dropped = [0]
    do(["listen", "A", GREETER])          # the greeter's listener exists from the start (see GHP)
    for op in case["ops"]:
        if dead[0] or viol or dropped[0]:
            break
        do(op)

    adversarial = any(op[0] == "lose" and len(op) > 2 for op in case["ops"])
    if dead[0] and not adversarial:
        viol.append(("exception", f"{dead[0]} raised by a legal schedule at `{lines[-1]}`"))
    if not dead[0] and not viol:
        # every listener is registered, then the final stable generation: both sides connected on one link,
        # unpaused, never paused again; drain everything.  If a receiver drops the connection while reading
        # (world l2), that is just one more loss: up to three further generations are tried.
        for x in ("A", "B"):
            for name in NAMES:
                do(["listen", x, name])
        for attempt in range(4):
            before = dropped[0]
            if kind == "l2":
                # a link that only one side still uses is given up by that side too
                for x in ("A", "B"):
                    s = sides[x]
                    if s.connected() and s.link.gone[W.peer(s).name]:
                        do(["lose", x])
            for x in ("A", "B"):
                s = sides[x]
                if not s.connected():
                    do(["use", x, 0])
                else:
                    do(["resume", x, 0])
            guard = 0
            while not dead[0] and not viol and guard < 10000 and dropped[0] == before:
                guard += 1
                moved = do(["deliver", "B"])
                if not dead[0] and not viol and dropped[0] == before:
                    moved = do(["deliver", "A"]) or moved
                if not moved:
                    break
            if dead[0] or viol or dropped[0] == before:
                break
        if not dead[0] and not viol:
            for x in ("A", "B"):
                do(["presume", x])               # whatever a paused subchannel still holds must come out now
        if dead[0]:
            viol.append(("exception", f"{dead[0]} raised while draining the final generation at `{lines[-1]}`"))
        elif not viol:
            why = (f" ({dropped[0]} connections in a row were dropped by the receiver while it read what the sender "
                   f"(re)sent first)") if dropped[0] else ""
            for s, peer in ((A, B), (B, A)):
                if peer.handle_log != s.issued:
                    viol.append(("not-all-delivered",
                                 f"after a stable generation drained{why}, {peer.name} dispatched {fmt(peer.handle_log)} but {s.name} issued {fmt(s.issued)}"))
                    break
                for scid in sorted({i[1] for i in s.issued}):
                    want = [i for i in s.issued if i[1] == scid]
                    if peer.app_log.get(scid, []) != want:
                        viol.append(("subchannel-callbacks-incomplete",
                                     f"with every listener registered and everything delivered{why}, the protocol of subchannel {scid} on {peer.name} saw {fmt(peer.app_log.get(scid, []))}, issued for it {fmt(want)}"))
                        break
    nontrivial = bool(tags & {"record-for-paused-subchannel:close", "record-for-paused-subchannel:data", "loss-between-KCM-and-accept:leader", "loss-between-KCM-and-accept:follower", "first-record-is-an-answer", "close-while-peer-has-unacked-data", "replay", "duplicate-dropped", "inflight-lost:data", "inflight-lost:ack",
                              "paused-inside-replay", "write-behind-replay", "ack-not-sent", "op:park",
                              "late-listener", "connect:reentrant", "big-write"})
    return Result(lines, exp, viol, sorted(tags), nontrivial)


def fmt(items):
    out = []
    for k, c, p in items:
        if k == "open":
            out.append(f"open({c},{p})")
        elif k == "data":
            out.append(f"data({c},{p.hex() if len(p) <= 40 else hxs(p)})")
        elif k == "close":
            out.append(f"close({c})")
        else:
            out.append(f"{k}({c})")
    return "[" + " ".join(out) + "]"


# ---------------------------------------------------------------------------
# generators

# encoded record = 9 bytes of header + payload; Noise payload limit 65519, Noise message limit 65535
BOUNDARY = [65509, 65510, 65511, 65518, 65526, 65527, 65535, 2 * 65519 - 10, 2 * 65519 - 9, 2 * 65519 - 8,
            3 * 65519 - 9, 3 * 65519 - 8]


class AppGen:
    """well-formed application behaviour on one side: open a fresh scid, write to open ones, close once; or the
    real connect() with a protocol that greets (and maybe closes) from inside connectionMade"""

    def __init__(self, x, rng, big=0.0):
        self.x = x
        self.rng = rng
        self.next_scid = 101 if x == "A" else 102     # directly opened ids; connect() allocates 1,3,… / 2,4,…
        self.open = []
        self.count = 0
        self.big = big

    def write(self):
        rng = self.rng
        self.count += 1
        r0 = rng.random()
        if r0 < 0.10:
            # the application answers on (or closes) the n-th subchannel the PEER connected
            return ["panswer", self.x, rng.choice([0, 0, 1, 2]), bytes(rng.randrange(256) for _ in range(rng.choice([1, 2]))).hex()]
        if r0 < 0.14:
            return ["pclose", self.x, rng.choice([0, 0, 1, 2])]
        if r0 < 0.28:
            names = ["a", "é", NFD, JAMO, PAUSER] if self.x == "A" else ["a", "é", "g", "g", NFD, JAMO, PAUSER]
            greetings = [bytes(rng.randrange(256) for _ in range(rng.choice([0, 1, 3]))).hex()
                         for _ in range(rng.choice([0, 1, 1, 2]))]
            return ["connect", self.x, rng.choice(names), greetings, rng.random() < 0.4]
        if not self.open or (len(self.open) < 3 and rng.random() < 0.3):
            scid = self.next_scid
            self.next_scid += 2
            self.open.append(scid)
            return ["write", self.x, "open", scid, rng.choice(["a", "a", "é", NFD, JAMO, PAUSER, PAUSER])]
        scid = rng.choice(self.open)
        if rng.random() < 0.12:
            self.open.remove(scid)
            return ["write", self.x, "close", scid]
        if rng.random() < self.big:
            return ["write", self.x, "data", scid, rng.choice(BOUNDARY)]
        n = rng.choice([0, 1, 1, 2, 3, 8])
        return ["write", self.x, "data", scid, bytes(rng.randrange(256) for _ in range(n)).hex()]


def listen_ops(rng, early):
    """listener registrations for both sides: all up front (early) or left for random later positions"""
    ops = []
    for x in "AB":
        for n in NAMES:
            if rng.random() < early:
                ops.append(["listen", x, n])
    return ops


def sprinkle(rng, ops, extra):
    for e in extra:
        ops.insert(rng.randrange(len(ops) + 1), e)
    return ops


def gen_free(rng, n):
    apps = {"A": AppGen("A", rng), "B": AppGen("B", rng)}
    ops = listen_ops(rng, rng.choice([0.0, 0.5, 1.0]))
    for _ in range(n):
        x = rng.choice("AB") if rng.random() < 0.3 else "A"
        r = rng.random()
        if r < 0.30:
            ops.append(apps[x].write())
        elif r < 0.60:
            ops.append(["deliver", rng.choice("AB")])
        elif r < 0.72:
            ops.append(["use", x, rng.choice([0, 0, 1, 2, 3])])
        elif r < 0.80:
            ops.append(["lose", x])
        elif r < 0.85:
            ops.append(["pause", x])
        elif r < 0.95:
            ops.append(["resume", x, rng.choice([0, 0, 1, 2])])
        else:
            ops.append(["listen", rng.choice("AB"), rng.choice(NAMES)])
    return ops


def gen_realistic(rng, gens, big=0.0):
    """generations as the Manager/Connector produce them: leader uses the connection first, traffic, then the
    connection dies with a delivered prefix, the two sides notice in either order, writes continue meanwhile.
    Valid in both worlds: in world l2 a `deliver B` between `use A` and `use B` parks the record."""
    apps = {"A": AppGen("A", rng, big), "B": AppGen("B", rng, big)}
    ops = listen_ops(rng, rng.choice([0.0, 0.0, 0.5, 1.0]))
    late = [["listen", x, n] for x in "AB" for n in NAMES]

    def some_writes(k, who="AAB"):
        for _ in range(k):
            ops.append(apps[rng.choice(who)].write())

    some_writes(rng.randrange(0, 5))
    for _g in range(gens):
        if rng.random() < 0.08:
            ops.append(["use", "A", 0, "dead"])  # dies between the follower's KCM and the leader's accept turn
        ops.append(["use", "A", rng.choice([0, 0, 0, 1, 2])])
        for _ in range(rng.choice([0, 0, 1, 2, 3, 5])):
            ops.append(["deliver", "B"])        # reaches the follower's connection before its select() turn
        if rng.random() < 0.08:
            # the follower's end dies between the leader's KCM and its own accept turn; both give the link up
            ops += [["use", "B", 0, "dead"], ["lose", "A"], ["use", "A", 0]]
            for _ in range(rng.choice([0, 1, 3])):
                ops.append(["deliver", "B"])
        ops.append(["use", "B", rng.choice([0, 0, 1, 2])])
        for _ in range(rng.randrange(2, 14)):
            r = rng.random()
            if r < 0.4:
                some_writes(1)
            elif r < 0.82:
                ops.append(["deliver", rng.choice("AB")])
            elif r < 0.87:
                ops.append(["pause", rng.choice("AB")])
            elif r < 0.93:
                ops.append(["resume", rng.choice("AB"), rng.choice([0, 1, 2])])
            elif r < 0.96:
                ops.append(["presume", rng.choice("AB")])
            else:
                ops.append(rng.choice(late))
        first, second = rng.choice([("A", "B"), ("B", "A")])
        ops.append(["lose", first])
        for _ in range(rng.randrange(0, 3)):
            r = rng.randrange(3)
            ops.append(apps["A"].write() if r == 0 else ["deliver", "AB"[r - 1]])
        ops.append(["lose", second])
        some_writes(rng.randrange(0, 4), "AAAB")
    return ops


def gen_pause_burst(rng):
    """a subchannel whose receiving application pauses it from inside dataReceived; DATA…DATA,CLOSE behind the record
    that triggers the pause: written back-to-back on a live connection, or while down and replayed in one burst
    (parked behind the KCM in world l2), with a loss in the middle; resumed at some point, or never"""
    x, y = rng.choice([("A", "B"), ("B", "A")])        # x writes, y's application pauses
    base = 101 if x == "A" else 102
    ops = [["listen", y, PAUSER]] if rng.random() < 0.8 else []
    burst = [["write", x, "open", base, PAUSER]]
    burst += [["write", x, "data", base, bytes([i + 1]).hex()] for i in range(rng.choice([2, 3, 4]))]
    if rng.random() < 0.85:
        burst.append(["write", x, "close", base])
    if rng.random() < 0.4:
        burst += [["write", x, "open", base + 2, PAUSER], ["write", x, "data", base + 2, "99"]]
    k = rng.randrange(0, len(burst) + 1)               # how much is written before the first connection
    ops += burst[:k] + [["use", "A", 0]] + [["deliver", "B"]] * rng.choice([0, 0, 1, 2, 4]) + [["use", "B", 0]] + burst[k:]
    for _ in range(rng.randrange(0, 8)):
        ops.append(rng.choice([["deliver", y], ["deliver", y], ["deliver", x], ["presume", y]]))
    if rng.random() < 0.5:
        first, second = rng.choice([("A", "B"), ("B", "A")])
        ops += [["lose", first], ["lose", second], ["write", x, "open", base + 4, PAUSER], ["write", x, "data", base + 4, "55"],
                ["write", x, "data", base + 4, "56"], ["write", x, "close", base + 4], ["use", "A", 0]]
        ops += [["deliver", "B"]] * rng.choice([0, 2, 5, 8]) + [["use", "B", 0]]
        for _ in range(rng.randrange(0, 10)):
            ops.append(rng.choice([["deliver", y], ["deliver", y], ["deliver", x], ["presume", y]]))
    if rng.random() < 0.3:
        ops.append(["listen", y, PAUSER])
    return ops


def gen_close_race(rng):
    """both sides write on one subchannel, one closes it while the other still has un-acked writes, the connection is
    lost asymmetrically (one direction's in-flight suffix delivered, the other's lost) right then; also: the
    answering side's very first record is that answer"""
    x, y = rng.choice([("A", "B"), ("B", "A")])        # y connects, x listens / answers / closes
    name = "a"
    ops = [["listen", x, name], ["use", "A", rng.choice([0, 0, 2])], ["use", "B", rng.choice([0, 0, 2])]]
    greet = [bytes([rng.randrange(256)]).hex() for _ in range(rng.choice([0, 1, 2, 3]))]
    ops.append(["connect", y, name, greet, rng.random() < 0.25])
    ops += [["deliver", x]] * rng.choice([1, 1, 2, 3])
    for _ in range(rng.choice([0, 0, 1, 2])):
        ops.append(["panswer", x, 0, bytes([rng.randrange(256)]).hex()])
    ops += [["deliver", y]] * rng.choice([0, 1, 2, 3])
    if rng.random() < 0.3:
        ops.append(["write", y, "open", 101 if y == "A" else 102, "a"])
        ops.append(["write", y, "data", 101 if y == "A" else 102, "77"])
    if rng.random() < 0.8:
        ops.append(["pclose", x, 0])
    ops += [["deliver", y]] * rng.choice([0, 1, 2, 3, 4])
    ops += [["deliver", x]] * rng.choice([0, 0, 1, 2])
    first, second = rng.choice([("A", "B"), ("B", "A")])
    ops += [["lose", first]]
    if rng.random() < 0.4:
        ops.append(["panswer", x, 0, "ee"])
    ops += [["lose", second], ["use", "A", rng.choice([0, 1])], ["deliver", "B"], ["use", "B", 0]]
    ops += [["deliver", rng.choice("AB")] for _ in range(rng.randrange(0, 6))]
    return ops


def corpus():
    out = []
    o = lambda x, scid, n="a": ["write", x, "open", scid, n]
    d = lambda x, scid, h: ["write", x, "data", scid, h]
    c = lambda x, scid: ["write", x, "close", scid]
    L = [["listen", x, n] for x in "AB" for n in NAMES]
    # 1. queued while down, then delivered
    out.append(("rec", L + [o("A", 1), d("A", 1, "01"), c("A", 1)]))
    # 2. loss after delivery but before the ack comes back: replay, duplicates dropped
    out.append(("rec", L + [["use", "A", 0], ["use", "B", 0], o("A", 1), d("A", 1, "01"), ["deliver", "B"], ["deliver", "B"],
                            ["lose", "A"], ["lose", "B"], d("A", 1, "02")]))
    # 3. ack delivered, then loss of the second record in flight
    out.append(("rec", L + [["use", "A", 0], ["use", "B", 0], o("A", 1), d("A", 1, "01"), ["deliver", "B"], ["deliver", "A"],
                            ["lose", "B"], ["lose", "A"], ["use", "B", 0], d("A", 1, "02")]))
    # 4. pause inside the replay loop, a write lands behind the unsent tail, loss before resume
    out.append(("rec", L + [o("A", 1), d("A", 1, "01"), d("A", 1, "02"), ["use", "A", 1], d("A", 1, "03"), ["deliver", "B"],
                            ["lose", "A"], d("A", 1, "04"), ["use", "A", 2], ["resume", "A", 1], ["resume", "A", 0]]))
    # 5. follower gets the replay before its own connection_made: acks are not sent
    out.append(("rec", L + [o("A", 1), d("A", 1, "aa"), ["use", "A", 0], ["deliver", "B"], ["deliver", "B"], ["use", "B", 0],
                            d("A", 1, "bb"), ["deliver", "B"], ["deliver", "A"]]))
    # 6. both directions, acks and data interleaved on the same connection, ack pauses the transport
    out.append(("rec", L + [["use", "A", 0], ["use", "B", 1], o("A", 1), o("B", 2), ["deliver", "B"], d("B", 2, "10"),
                            ["deliver", "A"], ["deliver", "A"], ["resume", "B", 0], ["deliver", "A"], ["deliver", "B"]]))
    # 7. three generations without any ack ever arriving
    out.append(("rec", L + [o("A", 1), ["use", "A", 0], ["deliver", "B"], ["lose", "A"], d("A", 1, "01"), ["use", "A", 0],
                            ["deliver", "B"], ["deliver", "B"], ["lose", "A"], c("A", 1), ["use", "A", 0], ["deliver", "B"]]))
    # 8. pause/resume with nothing to replay; double pause; double resume
    out.append(("rec", L + [["use", "A", 0], ["pause", "A"], ["pause", "A"], o("A", 1), ["resume", "A", 0], ["resume", "A", 0],
                            d("A", 1, "")]))
    # 10. an ack retires records that are still waiting in _queued_unsent (second loop of handle_ack)
    out.append(("rec", L + [o("A", 1), d("A", 1, "01"), d("A", 1, "02"), ["use", "A", 0], ["use", "B", 0], ["deliver", "B"],
                            ["deliver", "B"], ["deliver", "B"], ["lose", "A"], ["use", "A", 1], ["deliver", "A"], ["deliver", "A"],
                            ["resume", "A", 0]]))
    # 11. write boundaries: an empty write and one larger than a Noise payload stay single records (both worlds)
    big = bytes((i * 31 + 7) % 256 for i in range(65520)).hex()
    for w in ("rec", "l2"):
        out.append((w, [["listen", "B", "a"], o("A", 1), d("A", 1, ""), d("A", 1, big), ["use", "A", 2], ["deliver", "B"],
                        ["use", "B", 0], ["resume", "A", 0], ["deliver", "B"], ["lose", "A"], d("A", 1, "ff")]))
    # 12. (l2) writes while down: the whole replay is coalesced with the leader's KCM and parked on the follower's
    #     new connection until its Connector's turn; first connection and after a reconnect
    out.append(("l2", L + [o("A", 1), d("A", 1, "01"), d("A", 1, "02"), d("A", 1, "03"), ["use", "A", 0],
                           ["deliver", "B"], ["deliver", "B"], ["deliver", "B"], ["deliver", "B"], ["use", "B", 0], c("A", 1)]))
    out.append(("l2", L + [["use", "A", 0], ["use", "B", 0], o("A", 1), ["deliver", "B"], ["deliver", "A"], ["lose", "A"],
                           ["lose", "B"], d("A", 1, "01"), d("A", 1, "02"), o("A", 3), d("A", 3, "03"), ["use", "A", 0],
                           ["deliver", "B"], ["deliver", "B"], ["deliver", "B"], ["use", "B", 0], ["deliver", "B"]]))
    # 13. (l2) un-acked records re-sent after a reconnect are parked together with new ones
    out.append(("l2", L + [["use", "A", 0], ["use", "B", 0], o("A", 1), d("A", 1, "01"), ["deliver", "B"], ["deliver", "B"],
                           ["lose", "B"], ["lose", "A"], d("A", 1, "02"), ["use", "A", 0], ["deliver", "B"], ["deliver", "B"],
                           ["deliver", "B"], ["use", "B", 0]]))
    # 14. late listener: the peer opens two subchannels of one name (and one of another) and writes on them before
    #     the application listens; each protocol must get its own data, in order (both worlds)
    for w in ("rec", "l2"):
        out.append((w, [["use", "A", 0], ["use", "B", 0], o("A", 1), o("A", 3), o("A", 5, "é"), d("A", 1, "a1"), d("A", 3, "b1"),
                        d("A", 5, "c1"), d("A", 1, "a2"), d("A", 3, "b2"), c("A", 3)] + [["deliver", "B"]] * 9 +
                    [["listen", "B", "a"], d("A", 1, "a3"), ["deliver", "B"], ["listen", "B", "é"]]))
        # … the same across a reconnect, follower to leader
        out.append((w, [["use", "A", 0], ["use", "B", 0], o("B", 2), o("B", 4), d("B", 2, "01"), d("B", 4, "02"),
                        ["deliver", "A"], ["deliver", "A"], ["deliver", "A"], ["lose", "A"], ["lose", "B"], d("B", 4, "03"),
                        d("B", 2, "04"), ["use", "A", 0], ["use", "B", 0], ["deliver", "A"], ["deliver", "A"], ["deliver", "A"],
                        ["deliver", "A"], ["deliver", "A"], ["listen", "A", "a"]]))
    # 15. (l2) one write at every chunking boundary of the record layer (encoded = payload + 9): it must cross the
    #     connection as ONE record, parked or not, and what follows it must arrive too
    for size in (65510, 65511, 65526, 65527, 2 * 65519 - 9, 2 * 65519 - 8):
        out.append(("l2", [["listen", "B", "a"], o("A", 1), ["write", "A", "data", 1, size], ["use", "A", 0],
                           ["deliver", "B"], ["deliver", "B"], ["use", "B", 0], d("A", 1, "01"), ["deliver", "B"]]))
        out.append(("l2", [["listen", "A", "a"], ["use", "A", 0], ["use", "B", 0], o("B", 2), ["write", "B", "data", 2, size],
                           ["deliver", "A"], ["deliver", "A"], d("B", 2, "02")]))
    # 16. the real connect() with protocols that write / close from inside connectionMade, both directions, before
    #     and after a reconnect; name g: the LISTENING protocol (on A) greets from inside its connectionMade too
    for w in ("rec", "l2"):
        out.append((w, [["listen", "B", "a"], ["use", "A", 0], ["use", "B", 0], ["connect", "A", "a", ["6869"], False],
                        ["connect", "A", "a", ["01", "02"], True], ["connect", "A", "é", [], True], ["deliver", "B"],
                        ["deliver", "B"], ["lose", "A"], ["lose", "B"], ["connect", "A", "a", ["03"], True]]))
        out.append((w, [["use", "A", 0], ["use", "B", 0], ["connect", "B", "g", ["aa"], False], ["deliver", "A"],
                        ["deliver", "A"], ["deliver", "B"], ["connect", "B", "g", [], True], ["deliver", "A"], ["lose", "B"],
                        ["lose", "A"], ["connect", "B", "a", ["bb"], True], ["use", "A", 0], ["use", "B", 0]]))
    # 17. both sides write on the same subchannel; one side closes it while the other still has un-acked writes on it;
    #     asymmetric loss right then (the CLOSE arrives, the writes in the other direction are lost); reconnect:
    #     the writes must still arrive, before the answering CLOSE
    for w in ("rec", "l2"):
        out.append((w, [["listen", "A", "a"], ["use", "A", 0], ["use", "B", 0], ["connect", "B", "a", ["aa", "bb"], False],
                        ["deliver", "A"], ["pclose", "A", 0], ["deliver", "B"], ["deliver", "B"], ["lose", "B"], ["lose", "A"]]))
        out.append((w, [["listen", "B", "a"], ["use", "A", 0], ["use", "B", 0], ["connect", "A", "a", ["01"], False],
                        ["deliver", "B"], ["deliver", "B"], ["panswer", "B", 0, "b1"], ["panswer", "B", 0, "b2"],
                        ["deliver", "A"], ["deliver", "A"], ["lose", "A"], ["panswer", "B", 0, "b3"], ["pclose", "B", 0],
                        ["deliver", "A"], ["lose", "B"]]))
        # 18. a side's very first sequenced record is a DATA (or CLOSE) answering on a subchannel the peer opened; it is
        #     delivered, its Ack is lost, the connection is replaced while the receiver's watermark is still 0
        out.append((w, [["listen", "A", "a"], ["use", "A", 0], ["use", "B", 0], ["connect", "B", "a", [], False],
                        ["deliver", "A"], ["panswer", "A", 0, "01"], ["deliver", "B"], ["deliver", "B"], ["lose", "A"],
                        ["lose", "B"], ["use", "A", 0], ["use", "B", 0], ["deliver", "B"], ["deliver", "B"],
                        ["panswer", "A", 0, "02"]]))
        out.append((w, [["listen", "A", "a"], ["use", "A", 0], ["use", "B", 0], ["connect", "B", "a", ["aa"], False],
                        ["deliver", "A"], ["deliver", "A"], ["pclose", "A", 0], ["deliver", "B"], ["deliver", "B"],
                        ["deliver", "B"], ["lose", "B"], ["lose", "A"]]))
    # 19. (l2) the TCP connection dies after an end parsed the peer's KCM and before its Connector's accept turn:
    #     the Manager is handed a dead connection and must learn of the loss one turn later; leader and follower,
    #     first and later generations, with writes queued before and issued after
    out.append(("l2", L + [o("A", 1), d("A", 1, "01"), ["use", "A", 0, "dead"], d("A", 1, "02"), ["use", "A", 0],
                           ["deliver", "B"], ["deliver", "B"], ["use", "B", 0], d("A", 1, "03")]))
    out.append(("l2", L + [o("A", 1), d("A", 1, "01"), o("B", 2), ["use", "A", 0], ["deliver", "B"], ["deliver", "B"],
                           ["use", "B", 1, "dead"], d("B", 2, "b1"), ["lose", "A"], d("A", 1, "02")]))
    out.append(("l2", L + [["use", "A", 0], ["use", "B", 0], o("A", 1), o("B", 2), ["deliver", "B"], ["deliver", "A"],
                           ["lose", "B"], ["lose", "A"], d("A", 1, "01"), d("B", 2, "02"), ["use", "A", 0, "dead"],
                           d("A", 1, "03"), ["use", "A", 0], ["deliver", "B"], ["use", "B", 0, "dead"], d("B", 2, "04"),
                           ["lose", "A"]]))
    # 20. (both worlds) subprotocol names that are valid but not NFC (decomposed accent; Hangul jamo + ANGSTROM SIGN +
    #     ligature): both sides use the identical str, the subchannel must reach the listener registered for it
    for w in ("rec", "l2"):
        out.append((w, [["listen", "B", NFD], ["listen", "A", JAMO], ["use", "A", 0], ["use", "B", 0], o("A", 101, NFD),
                        d("A", 101, "01"), o("B", 102, JAMO), d("B", 102, "02"), o("A", 103, JAMO),
                        ["connect", "B", NFD, ["aa"], True], c("A", 101)] + [["deliver", "B"], ["deliver", "A"]] * 5))
    # 21. a receiving application that pauses its subchannel from inside dataReceived, with DATA, DATA, CLOSE right
    #     behind the record that made it pause: back-to-back on a live connection, and as a burst replayed after a
    #     reconnect (parked behind the KCM in world l2); resumed late, or only by the finale
    for w in ("rec", "l2"):
        out.append((w, [["listen", "B", PAUSER], ["use", "A", 0], ["use", "B", 0], o("A", 1, PAUSER), d("A", 1, "01"), d("A", 1, "02"),
                        d("A", 1, "03"), c("A", 1)] + [["deliver", "B"]] * 5 + [["presume", "B"]]))
        out.append((w, [["listen", "B", PAUSER], ["listen", "A", PAUSER], o("A", 1, PAUSER), d("A", 1, "01"), d("A", 1, "02"), c("A", 1),
                        o("B", 2, PAUSER), d("B", 2, "b1"), ["use", "A", 0], ["deliver", "B"], ["deliver", "B"], ["deliver", "B"],
                        ["deliver", "B"], ["use", "B", 0], ["deliver", "A"], ["deliver", "A"], d("B", 2, "b2"), c("B", 2),
                        ["lose", "A"], ["lose", "B"]]))
        out.append((w, [["use", "A", 0], ["use", "B", 0], o("A", 1, PAUSER), d("A", 1, "01"), ["deliver", "B"], ["deliver", "B"],
                        ["listen", "B", PAUSER], d("A", 1, "02"), ["deliver", "B"], ["presume", "B"], d("A", 1, "03"), c("A", 1),
                        ["deliver", "B"], ["deliver", "B"]]))
    # 9. adversarial: stop_using_connection without a connection
    out.append(("rec", [o("A", 1), ["lose", "A", "force"]]))
    return [dict(kind="sched", world=w, ops=ops) for w, ops in out]


def exhaustive(rng):
    """4 records x 2 generations: every split of the writes around the first connection, every loss point of data
    and of acks in generation 1, pause budgets for both replays, both orders of noticing the loss."""
    out = []
    recs = [["write", "A", "open", 1, "a"], ["write", "A", "data", 1, "01"], ["write", "A", "data", 1, "02"],
            ["write", "A", "close", 1]]
    for pre in range(0, 5):                 # records written before the first connection
        for mid in range(0, 5 - pre):       # written during generation 1 (rest: while down)
            for b1 in (0, 1, 2):
                for nd in range(0, pre + mid + 1):       # data records delivered in generation 1
                    for na in range(0, nd + 1):          # acks delivered in generation 1
                        for b2 in (0, 1, 3):
                            for order in (("A", "B"), ("B", "A")):
                                ops = [["listen", "B", "a"]]
                                ops += recs[:pre] + [["use", "A", b1], ["use", "B", 0]] + recs[pre:pre + mid]
                                ops += [["resume", "A", 0]] if b1 else []
                                ops += [["deliver", "B"]] * nd + [["deliver", "A"]] * na
                                ops += [["lose", order[0]], ["lose", order[1]]] + recs[pre + mid:]
                                ops += [["use", "A", b2]]
                                out.append(dict(kind="sched", world="rec", ops=ops))
    rng.shuffle(out)
    return out


def exhaustive_parked(rng):
    """world l2, two generations: n1 records written before the first connection, k1 of them parked behind the
    KCM on the follower; after the loss (d data / a acks delivered) n2 more records, k2 parked in generation 2;
    listener early or late; two subchannels."""
    out = []
    recs = [["write", "A", "open", 1, "a"], ["write", "A", "open", 3, "a"], ["write", "A", "data", 1, "01"],
            ["write", "A", "data", 3, "02"], ["write", "A", "data", 1, "03"], ["write", "A", "close", 3]]
    for n1 in range(0, 5):
        for k1 in range(0, n1 + 1):
            for nd in range(0, n1 - k1 + 1):
                for na in range(0, k1 * 0 + nd + 1):
                    for n2 in range(0, len(recs) - n1 + 1):
                        for k2 in sorted({0, 1, 2, n1 + n2}):
                            for late in (False, True):
                                ops = [] if late else [["listen", "B", "a"]]
                                ops += recs[:n1] + [["use", "A", 0]] + [["deliver", "B"]] * k1 + [["use", "B", 0]]
                                ops += [["deliver", "B"]] * nd + [["deliver", "A"]] * na
                                ops += [["lose", "A"], ["lose", "B"]] + recs[n1:n1 + n2]
                                ops += [["use", "A", 0]] + [["deliver", "B"]] * k2 + [["use", "B", 0]]
                                ops += recs[n1 + n2:]
                                out.append(dict(kind="sched", world="l2", ops=ops))
    rng.shuffle(out)
    return out


def cases(rng, tier):
    out = corpus()
    if tier == "quick":
        n_real, n_free, n_l2 = 200, 200, 250
    else:
        n_real, n_free, n_l2 = 6000, 6000, 6000
    for _ in range(n_real):
        out.append(dict(kind="sched", world="rec", ops=gen_realistic(rng, rng.choice([1, 2, 2, 3]))))
    for _ in range(n_free):
        out.append(dict(kind="sched", world="rec", ops=gen_free(rng, rng.choice([10, 25, 40]))))
    for _ in range(n_l2):
        out.append(dict(kind="sched", world="l2", ops=gen_realistic(rng, rng.choice([1, 2, 2, 3]), big=0.01)))
    if tier == "thorough":
        o = lambda x, scid, n="a": ["write", x, "open", scid, n]
        for size in sorted(set(list(range(65505, 65545, 3)) + BOUNDARY)):
            for k in (0, 1, 2):
                out.append(dict(kind="sched", world="l2", ops=[["listen", "B", "a"], o("A", 1), ["write", "A", "data", 1, size],
                                                               ["use", "A", 0]] + [["deliver", "B"]] * k + [["use", "B", 0]]))
    for _ in range(80 if tier == "quick" else 2500):
        out.append(dict(kind="sched", world=rng.choice(["rec", "l2"]), ops=gen_close_race(rng)))
    for _ in range(80 if tier == "quick" else 2500):
        out.append(dict(kind="sched", world=rng.choice(["rec", "l2"]), ops=gen_pause_burst(rng)))
    ex = exhaustive(rng)
    out += ex if tier == "thorough" else ex[:200]
    exp = exhaustive_parked(rng)
    out += exp if tier == "thorough" else exp[:150]
    return out


def search(rng, seconds, seeds):
    import time
    t0 = time.time()
    for c in seeds:
        yield c, run_case(c)
    for c in corpus():
        yield c, run_case(c)
    for c in exhaustive_parked(rng)[:1500] + exhaustive(rng):
        yield c, run_case(c)
        if time.time() - t0 > seconds:
            return
    while time.time() - t0 < seconds:
        w = rng.choice(["rec", "l2"])
        c = dict(kind="sched", world=w, ops=gen_realistic(rng, 3) if (w == "l2" or rng.random() < 0.5) else gen_free(rng, 40))
        yield c, run_case(c)


def well_formed(ops):
    """application-level sanity of a schedule: data/close only on a subchannel this side opened and has not closed"""
    opened, closed = set(), set()
    for op in ops:
        if op[0] != "write":
            continue
        key = (op[1], op[3])
        if op[2] == "open":
            if key in opened:
                return False
            opened.add(key)
        else:
            if key not in opened or key in closed:
                return False
            if op[2] == "close":
                closed.add(key)
    return True


def shrink(case):
    ops = case["ops"]
    n = len(ops)
    for size in (max(n // 2, 1), max(n // 4, 1), 1):
        for i in range(0, n, size):
            cand = ops[:i] + ops[i + size:]
            if cand and len(cand) < n and well_formed(cand):
                yield dict(case, ops=cand)
