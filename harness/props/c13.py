"""C13 — subchannels open once, close once, honour the subprotocol contract.

World: two REAL Dilators -> `dilate(expected_subprotocols=…)` (through the real
`_DeferredWormhole.dilate` and `Boss.dilate` pass-throughs) -> real Manager, Inbound, Outbound,
SubchannelDemultiplex, SubChannel, DilatedWormhole endpoints, and — per connection generation — the
real Connector (its `start()`, i.e. listening/dialling, is a no-op) building real
DilatedConnectionProtocols (framing + a toy Noise) whose transports are in-memory pipes of frames.
The case decides which frames arrive when: one record at a time, or a burst sharing the chunk with
the Leader's KCM (parked until the Connector's accept turn calls select()); one direction can be
black-holed (its ACKs never arrive) before the link is dropped; the reconnect goes through the real
rx_RECONNECT / rx_RECONNECTING inputs and Outbound's re-send of everything un-acked.  A connection can also be
lost between the KCM chunk and the Follower's accept turn (`linklost`): either the Leader's `reconnect` overtakes
the turn (the Connector is stopped, the records parked on the candidate connection are gone and must come again
with the next connection), or the transport dies first (the turn still selects the dead connection and drains
what was parked; the loss is noticed afterwards).

The reactor's order is kept on both sides: an API call (`connect()`/`listen()`) continues in ONE eventual turn (the calls
that are due when the iteration starts); whatever that turn -- or a record being read -- puts on the eventual queue runs
in a LATER turn, and the socket is read in between: the `deliver` operations that follow in the case happen before the
side's leftover turns (`settle()`, one `X turn` line per turn; the model defers nothing, so on the unchanged tree no such
line ever appears).  The id counters of the real Managers can be fast-forwarded (`ffwd`) to the 4-byte boundary of the
wire field: the stand-in for the ~2**31 connect()s that nobody can run.
"""
import itertools
import types
from unittest import mock

from twisted.internet.interfaces import IHalfCloseableProtocol, IProtocol, ITransport, IConsumer
from twisted.internet.task import Clock, Cooperator
from twisted.python import log as txlog
from zope.interface import alsoProvides, implementer

from wormhole import wormhole as wormhole_mod
from wormhole import _boss
from wormhole._dilation import manager as dmanager
from wormhole._dilation import connector as dconnector
from wormhole._dilation.connection import Ack, Close, Data, KCM, Open, encode_record, parse_record
from wormhole._dilation.manager import DILATION_VERSIONS, Dilator
from wormhole._dilation.roles import LEADER
from wormhole._interfaces import ISend, ITerminator
from wormhole.eventual import EventualQueue
from wormhole.util import dict_to_bytes

from ..core import Result
from ..fakes import ToyNoise, hx
from ..util import automat_state

ID = "C13"
PROP_MODULES = ["WV.Props.C13"]
# the allocation-timing obligations need two flags from the translator (see agents/C13_integration.md);
# they are checked as soon as tools/extract.py emits them
import os as _os
_EXTRACT = _os.path.join(_os.path.dirname(_os.path.dirname(_os.path.dirname(_os.path.abspath(__file__)))), "tools", "extract.py")
if "connect_allocates_after_main_channel" in open(_EXTRACT).read():
    PROP_MODULES.append("WV.Props.C13_Alloc")
if "parked_queue_is_fifo" in open(_EXTRACT).read():
    PROP_MODULES.append("WV.Props.C13_Link")
if "pending_opens_unbounded" in open(_EXTRACT).read():
    PROP_MODULES.append("WV.Props.C13_Backlog")
# the 4-byte boundary of the id: the driven model's error branch, ids_disjoint restated with the limit, ids_never_wrap
PROP_MODULES.append("WV.Props.C13_Wire")
# translation validation of Manager.allocate_subchannel_id + the writers of the counter + to_be4's bound (needs the
# translator section `extract_c13_wire`, see agents/sC13_integration.md)
if "extract_c13_wire" in open(_EXTRACT).read():
    PROP_MODULES.append("WV.Props.C13_PyIR")
# translation validation of the SubChannel outputs/helpers, SubchannelDemultiplex and the Manager forwarders (needs the
# translator section `extract_pyir_sub` and the Props file, see agents/deepSub_integration.md)
if "extract_pyir_sub" in open(_EXTRACT).read() and _os.path.exists(_os.path.join(
        _os.path.dirname(_EXTRACT), "..", "lean", "WV", "Props", "PyIRSub_C13.lean")):
    PROP_MODULES.append("WV.Props.PyIRSub_C13")
TRUSTED = ["L4 record delivery between the two Managers is exactly-once and in order (C10); the harness pipe is a FIFO "
           "(a re-sent old record is an explicit `dup` operation)",
           "TCP/hints/Noise: Connector.start() is a no-op, the harness creates the one negotiated link per generation "
           "(real DilatedConnectionProtocol over an in-memory frame pipe, toy Noise); loss points are frame boundaries and "
           "the gap between the KCM chunk and the Connector's accept turn",
           "which records are 'new' on arrival is decided by the harness from sequence numbers and, after a loss, from the "
           "real Inbound watermark (the model's delivery cursor falls back to the first unprocessed record by the same rule)",
           "application protocol callbacks do not call back into their transport re-entrantly",
           "OneShotObserver/EventualQueue fire waiting connect()/listen() calls in FIFO order (the harness takes the order "
           "from the real queue)",
           "the id boundary is reached by fast-forwarding Manager._next_subchannel_id (`ffwd n` = += 2n; Lean: "
           "ffwd_is_n_allocations, only_connect_allocates), not by 2**31 real connect()s; the sequence-number field has the "
           "same 4-byte limit and is not taken to its boundary; after an id stopped fitting the schedules have no further "
           "connection loss (Outbound's re-send of the queued, unencodable OPEN is outside the model: it aborts the re-send "
           "loop with ValueError and leaves the records queued behind it unsent)",
           "between an API call's turn and the side's next eventual turn only socket reads (deliveries) are scheduled"]
RULE = ("two real Managers (leader+follower) built through dilate(expected_subprotocols=unset|[]|[a]|[a,b]); random and "
        "small-scope exhaustive interleavings of connect/listen/write/loseConnection/loseWriteConnection on both sides "
        "and in-order record delivery, <=4 subchannels, names incl. non-ASCII, half-closeable and normal protocols, "
        "many OPENs for one name (1..129, a second name interleaved) before a late listen(); (re)connections with bursts of the Leader's records sharing the KCM chunk (first connection and reconnects), one direction black-holed before a drop (lost ACKs => re-sent records), activity while the link is down; connections lost between the KCM chunk and the Follower's accept turn (`linklost`: the Leader's reconnect overtakes the turn => parked records dropped and sent again; or the transport dies first => the turn drains them on the dead connection), also the very first connection, with declared sets and late listeners; calls issued right after dilate() (before the peer's PLEASE / role choice) and before the connection exists, by either side, with both sides opening subchannels; adversarial stream adds injected OPEN/DATA/CLOSE with arbitrary "
        "scid/seq and re-delivered old records; the 4-byte boundary of the subchannel id: allocation counters of one or both "
        "real Managers fast-forwarded to 0..3 (or 1000) allocations before / up to 3 past the last id that fits to_be4, then "
        "1..4 connect()s per side interleaved, data both ways, closes (quick 13 cases, thorough 85); the reactor's order "
        "around a late listen(): 1..3 held OPENs with 0..2 queued DATA each, the opener's next records (DATA / CLOSE / "
        "another OPEN) read from the socket after listen()'s turn and before the listener's next eventual turn (quick 18 "
        "enumerated, thorough 216), and the same turn discipline in every random case; non-trivial = at least one subchannel reached a protocol or was refused; "
        "distinct = distinct canonical output traces")

NAMES = ["a", "b", "é", "名前", "x y"]



def hs(s):
    return hx(s.encode("utf8"))


# ---------------------------------------------------------------------------
# the world

@implementer(ITransport, IConsumer)
class Wire:
    """the transport of one real DilatedConnectionProtocol: every write is one frame (or the prologue), kept with
    the record it carries (None for prologue / handshake / the follower's KCM) in the owner's outgoing pipe"""

    def __init__(self, side):
        self.side = side
        self.tag = None
        self.producer = None

    def write(self, data):
        self.side.pipe.append([self.tag, bytes(data)])

    def loseConnection(self):
        self.side.wants_drop = True

    def registerProducer(self, p, streaming):
        self.producer = p

    def unregisterProducer(self):
        self.producer = None

    def pauseProducing(self):
        pass

    def resumeProducing(self):
        pass

    def getPeer(self):
        return "peer"

    def getHost(self):
        return "host"


def _no_start(self):
    """Connector.start() would listen on TCP and publish hints; the harness supplies the link itself"""


def link_patches():
    return mock.patch.object(dconnector.Connector, "start", _no_start), \
        mock.patch.object(dconnector, "build_noise", ToyNoise)


@implementer(IProtocol)
class P:
    kind = "full"

    def __init__(self, side, pid):
        self.side, self.pid, self.transport = side, pid, None

    def makeConnection(self, t):
        self.transport = t
        self.side.eff(f"made {self.pid}")

    def connectionMade(self):  # pragma: no cover
        pass

    def dataReceived(self, d):
        self.side.eff(f"data {self.pid} {hx(d)}")

    def connectionLost(self, reason=None):
        self.side.eff(f"lost {self.pid}")


@implementer(IHalfCloseableProtocol)
class HP(P):
    kind = "half"

    def readConnectionLost(self):
        self.side.eff(f"rlost {self.pid}")

    def writeConnectionLost(self):
        self.side.eff(f"wlost {self.pid}")


class Factory:
    def __init__(self, side, kind):
        self.side, self.kind = side, kind

    def buildProtocol(self, addr):
        pid = len(self.side.protos)
        p = (HP if self.kind == "half" else P)(self.side, pid)
        self.side.protos.append(p)
        self.side.eff(f"build {pid} {hs(addr.subprotocol)}")
        return p

    def doStart(self):  # pragma: no cover
        pass

    def doStop(self):  # pragma: no cover
        pass


class Side:
    def __init__(self, label, my_side, their_side, expected):
        self.label = label
        self.effects = []
        self.protos = []
        self.flight = []        # sequenced records queued for sending, in order (what the peer must see, once each)
        self.pipe = []          # frames written to the current connection and not yet delivered: [record|None, bytes]
        self.proto = None       # the current real DilatedConnectionProtocol
        self.hold = False       # frames from this side are black-holed for now (not delivered until released)
        self.rx_new = 0         # how many distinct records of the peer have reached this side (processed, or parked on
                                # the current connection); falls back to the processed count when a connection is lost
        self.parked_new = []    # new records parked on the current connection, not yet handed over by select()
        self.unsendable = set() # seqnums of records that were numbered and queued but can never be encoded (id > 4 bytes)
        self.wants_drop = False
        self.peer = None
        self.clock = Clock()
        self.eq = EventualQueue(self.clock)
        coop = Cooperator(terminationPredicateFactory=lambda: (lambda: True), scheduler=self.eq.eventually)
        send = mock.Mock()
        alsoProvides(send, ISend)
        term = mock.Mock()
        alsoProvides(term, ITerminator)
        self.dil = Dilator(self.clock, self.eq, coop, DILATION_VERSIONS)
        self.dil.wire(send, term)
        # the real application entry point: _DeferredWormhole.dilate -> Boss.dilate -> Dilator.dilate
        boss = types.SimpleNamespace(_D=self.dil, _current_wormhole_status=None)
        boss.dilate = lambda *a, **kw: _boss.Boss.dilate(boss, *a, **kw)
        w = types.SimpleNamespace(_enable_dilate=True, _boss=boss)
        kw = {} if expected is None else {"expected_subprotocols": list(expected)}
        with mock.patch.object(dmanager, "make_side", return_value=my_side):
            self.api = wormhole_mod._DeferredWormhole.dilate(w, **kw)
            self.dil.got_key(b"\x00" * 32)
            self.dil.got_wormhole_versions({"can-dilate": list(DILATION_VERSIONS)})
        self.role_error = None
        self.their_side = their_side
        self.mgr = self.dil._manager
        # observation points (harness process only): a record is "sent" by the application's call when Outbound
        # queues it (it may go out much later, or several times); an Ack when it is really handed to a connection
        ob = self.mgr._outbound
        orig_q, orig_s = ob.queue_and_send_record, ob.send_if_connected

        def queue_and_send_record(r):
            self.sent(r)
            return orig_q(r)

        def send_if_connected(r):
            if isinstance(r, Ack) and ob._connection:
                self.eff(f"ack {r.resp_seqnum}")
            return orig_s(r)
        ob.queue_and_send_record, ob.send_if_connected = queue_and_send_record, send_if_connected

    def please(self):
        """the peer's PLEASE arrives: rx_PLEASE -> choose_role -> a real Connector (its start() is a no-op)"""
        p1, p2 = link_patches()
        with p1, p2:
            try:
                self.dil.received_dilate(dict_to_bytes({"type": "please", "side": self.their_side, "use-version": "ged"}))
            except ValueError:
                self.role_error = "ValueError"

    def mailbox(self, typ):
        """a `reconnect` / `reconnecting` message arrives through the mailbox"""
        p1, p2 = link_patches()
        with p1, p2:
            self.mgr.received_dilation_message(dict_to_bytes({"type": typ}))

    def new_protocol(self):
        """one negotiated TCP connection: the real Connector builds the real DilatedConnectionProtocol"""
        p1, p2 = link_patches()
        with p1, p2:
            p = self.mgr._connector.build_protocol(None, "link")
        t = Wire(self)
        orig = p.send_record

        def send_record(r):
            t.tag = r
            try:
                return orig(r)
            finally:
                t.tag = None
        p.send_record = send_record
        self.proto = p
        self.pipe = []
        p.makeConnection(t)
        return p

    # -- called by the real code
    def eff(self, s):
        self.effects.append(s)

    def sent(self, r):
        if sequenced(r):
            try:
                encode_record(r)
            except ValueError:
                # numbered (the seqnum is consumed) and queued, but `to_be4` refuses it every time it is to be written:
                # it never reaches the wire, the peer never sees this seqnum
                self.unsendable.add(r.seqnum)
                return
        if isinstance(r, Open):
            self.eff(f"tx-open {r.seqnum} {r.scid} {hs(r.subprotocol)}")
            self.flight.append(r)
        elif isinstance(r, Data):
            self.eff(f"tx-data {r.seqnum} {r.scid} {hx(r.data)}")
            self.flight.append(r)
        elif isinstance(r, Close):
            self.eff(f"tx-close {r.seqnum} {r.scid}")
            self.flight.append(r)

    def summary(self):
        opens = " ".join(f"{scid}:{automat_state(sc)}" for scid, sc in self.mgr._inbound._open_subchannels.items())
        pend = " ".join(f"{hs(n)}:{len(q)}" for n, q in self.mgr._subprotocol_factories._pending_opens.items())
        park = len(self.proto._inbound_record_queue) if self.proto is not None else 0
        return f"open=[{opens}] pend=[{pend}] park={park}"

    def connected(self):
        return self.proto is not None and self.mgr._connection is self.proto

    def one_turn(self):
        """one reactor iteration's timed-call phase (runUntilCurrent): the calls that are due when it starts; what they
        schedule (`callLater(0, …)`: the next eventual turn) waits for the next iteration -- after the I/O phase"""
        clock = self.clock
        due = [c for c in clock.calls if c.getTime() <= clock.seconds()]
        for c in due:
            if c in clock.calls:      # not cancelled by an earlier one
                clock.calls.remove(c)
                c.called = 1
                c.func(*c.args, **c.kw)

    def feed(self, frames):
        """the peer's frames arrive here as ONE chunk"""
        self.proto.dataReceived(b"".join(f[1] for f in frames))


CURRENT = [None]


def _observer(ev):
    if ev.get("isError") and CURRENT[0] is not None:
        f = ev.get("failure")
        CURRENT[0].eff("log " + (f.type.__name__ if f is not None else "error"))


def exp_token(e):
    if e is None:
        return "none"
    if not e:
        return "-"
    return ",".join(hs(n) for n in e)


def op_line(op):
    k, side = op[0], op[1]
    if k in ("connect", "listen"):
        return f"{side} {k} {hs(op[2])} {op[3]}"
    if k == "write":
        return f"{side} write {op[2]} {op[3] or '-'}"
    if k in ("lose", "losew"):
        return f"{side} {k} {op[2]}"
    if k == "deliver":
        return f"deliver {side}"
    if k == "ffwd":
        return f"{side} ffwd {op[2]}"
    if k == "rx":
        rk = op[2]
        if rk == "open":
            return f"{side} rx open {op[3]} {op[4]} {hs(op[5])}"
        if rk == "data":
            return f"{side} rx data {op[3]} {op[4]} {op[5] or '-'}"
        return f"{side} rx close {op[3]} {op[4]}"
    raise ValueError(op)


def rec_tokens(r):
    if isinstance(r, Open):
        return f"open {r.seqnum} {r.scid} {hs(r.subprotocol)}"
    if isinstance(r, Data):
        return f"data {r.seqnum} {r.scid} {hx(r.data)}"
    return f"close {r.seqnum} {r.scid}"


def sequenced(r):
    return isinstance(r, (Open, Data, Close))


class Run:
    """executes one case on the real objects, producing model lines / expected outputs and the
    observation record the oracle works on"""

    def __init__(self, case):
        self.case = case
        self.lines, self.expect = [], []
        # (op, side_label, effects_of_step, error, summary, arrivals): arrivals = the peer's records that reached
        # this side's Manager for the first time in this step (each must be handled exactly once, in this order)
        self.steps = []
        self.sides = {}
        self.waiting = {"A": [], "B": []}
        self.inflight = {"A": [], "B": []}   # connect()/listen() calls that did not complete in their first turn
        self.fifo_ok = True
        self.notes = []          # schedule classes that really happened (distribution tags)

    def side_of(self, op):
        if op[0] == "deliver":
            return self.sides["B" if op[1] == "A" else "A"]
        return self.sides[op[1]]

    def emit(self, line, op, side, mark, err, arrivals=(), park=None):
        effs = side.effects[mark:]
        summ = side.summary()
        if park is not None:
            summ = summ[:summ.rindex("park=")] + f"park={park}"
        self.lines.append(line)
        self.expect.append("; ".join(effs + ([err] if err else [])) + " | " + summ)
        self.steps.append((op, side.label, effs, err, summ, list(arrivals)))

    def record(self, op, side, mark, err):
        self.emit(op_line(op), op, side, mark, err)

    def api_call(self, op):
        """issues connect/listen; returns a holder whose .done/.err are filled when it has run"""
        side = self.sides[op[1]]
        h = types.SimpleNamespace(done=False, err=None)
        try:
            if op[0] == "connect":
                ep = side.api.connector_for(op[2])
                d = ep.connect(Factory(side, op[3]))
            else:
                ep = side.api.listener_for(op[2])
                d = ep.listen(Factory(side, op[3]))
        except Exception as e:   # synchronous (endpoint construction)
            h.done, h.err = True, type(e).__name__
            return h

        def ok(_):
            h.done = True

        def bad(f):
            h.done, h.err = True, f.type.__name__
        d.addCallbacks(ok, bad)
        return h

    # ---- the link

    def classify(self, dst, r):
        """a sequenced record of the peer reaches `dst`: the next new one, or one it has seen before (a re-send)"""
        while dst.rx_new in dst.peer.unsendable:
            dst.rx_new += 1
        if r.seqnum == dst.rx_new:
            dst.rx_new += 1
            return True
        return False

    def turns(self, side):
        """the side's eventual queue, one callback at a time: each waiting connect()/listen() is its own step, and
        so is the Connector's accept turn (select() + connector_connection_made)"""
        CURRENT[0] = side
        queue = self.waiting[side.label]
        while side.eq._calls:
            calls, side.eq._calls = side.eq._calls, []
            for f, args, kw in calls:
                mark = len(side.effects)
                before = [h.done for _, h in queue]
                was = side.mgr._connection
                parked = list(side.proto._inbound_record_queue) if side.proto is not None else []
                err = None
                try:
                    f(*args, **kw)
                except Exception as e:   # EventualQueue._turn would log it and go on
                    err = type(e).__name__
                if side.proto is not None and side.mgr._connection is side.proto and was is not side.proto:
                    self.emit(f"{side.label} select", ["select", side.label], side, mark, err, side.parked_new)
                    side.parked_new = []
                    continue
                if err is not None and getattr(f, "__name__", "") == "accept":
                    self.notes.append("stale-accept-turn:" + err)
                now = [i for i, (_, h) in enumerate(queue) if h.done and not before[i]]
                if now:
                    op, h = queue[now[0]]
                    self.record(op, side, mark, h.err)
                    self.fifo_ok = self.fifo_ok and now[0] == sum(before)
        self.waiting[side.label] = [(op, h) for op, h in queue if not h.done]

    def autoflush(self):
        """frames that are not subchannel records (acks, pings, handshake) at the head of a pipe travel at once,
        unless that direction is black-holed"""
        again = True
        while again:
            again = False
            for lab in ("A", "B"):
                src = self.sides[lab]
                dst = src.peer
                while src.pipe and not src.hold and not sequenced(src.pipe[0][0]) and dst.proto is not None:
                    CURRENT[0] = dst
                    dst.feed([src.pipe.pop(0)])
                    again = True

    def link(self, burst, lose=None):
        a, b = self.sides["A"], self.sides["B"]
        if a.proto is not None or b.proto is not None:
            return
        L, F = (a, b) if a.mgr._my_role == LEADER else (b, a)
        if getattr(self, "linked_once", False) and not getattr(self, "reconnect_sent", False):
            # the Leader noticed the loss and said `reconnect`; the Follower answers `reconnecting`
            F.mailbox("reconnect")
            L.mailbox("reconnecting")
        self.reconnect_sent = False
        self.linked_once = True
        for s in (L, F):
            s.hold = False
            s.new_protocol()
        # prologues, Noise handshakes, the Follower's KCM
        moved = True
        while moved:
            moved = False
            for src in (L, F):
                while src.pipe:
                    moved = True
                    CURRENT[0] = src.peer
                    src.peer.feed([src.pipe.pop(0)])
        # the Leader's Connector takes its eventual turn: select(), KCM, connector_connection_made (which flushes
        # everything queued or un-acked); then whatever was waiting for the main channel
        self.turns(L)
        # the Follower gets the KCM and the first `burst` subchannel records in the SAME chunk
        chunk, n = [], 0
        seen_kcm = False
        while L.pipe and (not seen_kcm or n < burst):
            fr = L.pipe.pop(0)
            chunk.append(fr)
            if isinstance(fr[0], KCM):
                seen_kcm = True
            elif sequenced(fr[0]):
                n += 1
        while L.pipe and seen_kcm and not sequenced(L.pipe[0][0]):
            chunk.append(L.pipe.pop(0))
        CURRENT[0] = F
        mark = len(F.effects)
        F.feed(chunk)
        # one line per parked record, in arrival order (nothing observable happens yet)
        F.parked_new = []
        for idx, r in enumerate(list(F.proto._inbound_record_queue)):
            if self.classify(F, r):
                F.parked_new.append(r)
                line = f"park {L.label}"
            else:
                line = f"{F.label} parkrx {rec_tokens(r)}"
            self.emit(line, ["park", F.label], F, mark, None, park=idx + 1)
            mark = len(F.effects)
        if lose == "reconnect":
            # the Leader's end of the connection dies right after it wrote KCM + burst; it notices, says `reconnect`,
            # and that message overtakes the Follower's accept turn: CONNECTING --rx_RECONNECT--> stop_connecting,
            # `reconnecting`, a new Connector.  The candidate connection and the records parked on it are gone.
            if F.parked_new:
                self.notes.append(f"loss:parked-unprocessed:{min(len(F.parked_new), 3)}")
            self.lose_side(L)
            F.mailbox("reconnect")
            F.proto.connectionLost()
            CURRENT[0] = F
            self.turns(F)            # the stale accept turn of the stopped Connector
            self.lose_side(F, fire=False)
            L.mailbox("reconnecting")
            self.reconnect_sent = True
            return
        if lose == "transport":
            # the TCP connection dies before the Follower's Connector took its accept turn: the turn still selects the
            # (dead) connection and drains what was parked; the loss is noticed in a later turn
            self.notes.append("loss:before-accept-turn")
            F.proto.connectionLost()
            self.turns(F)
            self.lose_side(F, fire=False)
            self.lose_side(L)
            return
        self.turns(F)
        self.autoflush()

    def settle(self, side):
        """the rest of `side`'s eventual queue, one reactor turn per line (`X turn`).  On the unchanged tree nothing is
        ever left: listen() hands queued data over inside its own turn and a record is handled when it is read."""
        while side.eq._calls:
            CURRENT[0] = side
            mark = len(side.effects)
            side.one_turn()
            self.notes.append("leftover-turn")
            fin = [(op, h) for op, h in self.inflight[side.label] if h.done]
            if fin:
                self.inflight[side.label] = [(op, h) for op, h in self.inflight[side.label] if not h.done]
                self.emit(op_line(fin[0][0]), fin[0][0], side, mark, fin[0][1].err)
                for op, h in fin[1:]:
                    self.emit(op_line(op), op, side, len(side.effects), h.err)
            else:
                self.emit(f"{side.label} turn", ["turn", side.label], side, mark, None)
        assert not self.inflight[side.label], "endpoint call did not complete"

    def lose_side(self, s, fire=True):
        """side `s` has no connection any more (`X lost`): what was parked on it and not handed over is gone, and the
        peer's cursor falls back to the first record `s` has not processed (the peer sends those again)"""
        CURRENT[0] = s
        mark = len(s.effects)
        p, s.proto = s.proto, None
        s.pipe = []
        s.wants_drop = False
        if p is not None and fire:
            p.connectionLost()
            s.eq.flush_sync()
        s.rx_new = min(s.rx_new, s.mgr._inbound._highest_inbound_acked + 1)
        s.parked_new = []
        self.emit(f"{s.label} lost", ["lost", s.label], s, mark, None)

    def drop(self):
        a, b = self.sides["A"], self.sides["B"]
        if a.proto is None and b.proto is None:
            return
        for s in (a, b):
            self.lose_side(s)

    def do(self, op):
        k = op[0]
        if k in ("drop", "link", "linklost", "hold", "release"):
            for s in self.sides.values():
                self.settle(s)
        if k == "drop":
            return self.drop()
        if k == "link":
            return self.link(op[1])
        if k == "linklost":
            return self.link(op[1], lose=op[2])
        if k in ("hold", "release"):
            self.sides[op[1]].hold = (k == "hold")
            if k == "release":
                self.autoflush()
            return
        side = self.side_of(op)
        if k != "deliver":
            # whatever this side's eventual queue still holds runs before its application does anything else; only
            # I/O (records read from the socket) can come between an API call's turn and the next turn
            self.settle(side)
        CURRENT[0] = side
        mark = len(side.effects)
        err = None
        line = op_line(op)
        arrivals = []
        try:
            if k in ("connect", "listen"):
                h = self.api_call(op)
                if not h.done and not side.mgr._made_first_connection:
                    # no connection yet: the call waits for the main channel like the early ones
                    self.waiting[side.label].append((op, h))
                    return
                # the reactor's order: the call continues in the NEXT eventual turn (when_fired() always waits one);
                # what that turn itself puts on the eventual queue runs a turn later, and the socket is read in between
                # (the following `deliver` operations of the case) -- see settle()
                side.one_turn()
                if not h.done:
                    # the call needs further turns (never on the unchanged tree): it completes in settle(), after the
                    # I/O that the case schedules in between, and is reported there
                    self.notes.append("api-call-needs-more-turns")
                    self.inflight[side.label].append((op, h))
                    if len(side.effects) > mark:
                        self.emit(f"{side.label} turn", ["turn", side.label], side, mark, None)
                    return
                err = h.err
            elif k == "ffwd":
                # stand-in for op[2] successful connect()s (each closed again later): the id counter is what they leave
                # behind in the Manager as far as this property's model is concerned
                side.mgr._next_subchannel_id += 2 * op[2]
            elif k in ("write", "lose", "losew"):
                pid = op[2]
                if pid >= len(side.protos) or side.protos[pid].transport is None:
                    err = "no-such-protocol"
                else:
                    t = side.protos[pid].transport
                    if k == "write":
                        t.write(bytes.fromhex(op[3]))
                    elif k == "lose":
                        t.loseConnection()
                    else:
                        t.loseWriteConnection()
            elif k == "deliver":
                src = self.sides[op[1]]
                if side.proto is None or not any(sequenced(f[0]) for f in src.pipe):
                    return   # nothing in flight: not an event
                while True:
                    fr = src.pipe.pop(0)
                    if sequenced(fr[0]):
                        r = fr[0]
                        if self.classify(side, r):
                            arrivals = [r]
                        else:
                            line = f"{side.label} rx {rec_tokens(r)}"
                        side.feed([fr])
                        break
                    side.feed([fr])
            elif k == "rx":
                rk = op[2]
                if rk == "open":
                    r = Open(op[3], op[4], op[5])
                elif rk == "data":
                    r = Data(op[3], op[4], bytes.fromhex(op[5]))
                else:
                    r = Close(op[3], op[4])
                side.mgr.got_record(parse_record(encode_record(r)))
            else:
                raise ValueError(op)
        except AssertionError as e:
            if "endpoint call" in str(e):
                raise
            err = "AssertionError"
        except Exception as e:
            err = type(e).__name__
        self.emit(line, op, side, mark, err, arrivals)
        self.autoflush()
        if any(s.wants_drop for s in self.sides.values()):
            self.drop()

    def go(self):
        c = self.case
        a = Side("A", c["sa"], c["sb"], c["expA"])
        b = Side("B", c["sb"], c["sa"], c["expB"])
        a.peer, b.peer = b, a
        self.sides = {"A": a, "B": b}
        self.lines.append(f"new {c['sa']} {c['sb']} {exp_token(c['expA'])} {exp_token(c['expB'])}")
        # calls made right after w.dilate(), before the peer's PLEASE has been processed (no role yet):
        # `dw = w.dilate(); dw.connector_for(name).connect(f)` -- they wait for the main channel too
        sync_failed = []
        for op in c.get("early", []):
            if op[0] in ("connect", "listen"):
                h = self.api_call(op)
                if h.done:   # synchronous failure (empty name)
                    sync_failed.append((op, h))
                else:
                    self.waiting[op[1]].append((op, h))
        for lab in c.get("please_order", "AB"):
            self.sides[lab].please()
        if a.role_error or b.role_error:
            self.expect.append("ValueError")
            return
        la = "true" if a.mgr._my_role == LEADER else "false"
        lb = "true" if b.mgr._my_role == LEADER else "false"
        self.expect.append(f"ok {la} {lb}")
        for op, h in sync_failed:
            side = self.sides[op[1]]
            self.record(op, side, len(side.effects), h.err)
        # calls made after the role is known but before the connection exists wait for the main channel
        for op in c.get("pre", []):
            if op[0] in ("connect", "listen"):
                h = self.api_call(op)
                if h.done:   # synchronous failure (empty name)
                    side = self.sides[op[1]]
                    self.record(op, side, len(side.effects), h.err)
                else:
                    self.waiting[op[1]].append((op, h))
        # the first connection; `burst` of the Leader's records share the chunk with its KCM
        first = c.get("first")
        if first:
            self.link(first[1], lose=first[2])
        self.link(c.get("burst", 0))
        for op in c["ops"]:
            self.do(op)
        for s in self.sides.values():
            self.settle(s)


# ---------------------------------------------------------------------------
# the oracle: the property, stated on what the two applications and the wire observed

def oracle(run):
    viol = []
    c = run.case
    honest = not any(op[0] == "rx" for op in c["ops"])
    sides = run.sides
    if not sides or any(s.role_error for s in sides.values()):
        return viol, []
    tags = []

    # ---- ids: never 0, leader odd / follower even, strictly increasing, disjoint between the sides
    opened = {}
    for lab, s in sides.items():
        ids = [int(e.split()[2]) for e in s.effects if e.startswith("tx-open ")]
        opened[lab] = ids
        leader = s.mgr._my_role == LEADER
        for i in ids:
            if i == 0 or (i % 2 == 1) != leader:
                viol.append(("ids-disjoint", f"side {lab} ({'leader' if leader else 'follower'}) opened subchannel id {i}"))
        if any(x >= y for x, y in zip(ids, ids[1:])):
            viol.append(("ids-disjoint", f"side {lab} opened ids {ids}: not strictly increasing"))
    both = set(opened["A"]) & set(opened["B"])
    if both:
        viol.append(("ids-disjoint", f"both sides allocated subchannel id(s) {sorted(both)}"))

    # ---- per protocol callback discipline (holds for every input stream, honest or not)
    for lab, s in sides.items():
        for p in s.protos:
            evs = [e for e in s.effects if e.split()[0] in ("build", "made", "data", "lost", "rlost", "wlost")
                   and int(e.split()[1]) == p.pid]
            kinds = [e.split()[0] for e in evs]
            if kinds[:2] != ["build", "made"] or kinds.count("build") != 1 or kinds.count("made") != 1:
                viol.append(("made-once-first", f"{lab} protocol {p.pid}: callbacks {kinds[:6]} (buildProtocol, connectionMade must come first, once)"))
            if kinds.count("lost") > 1:
                viol.append(("connectionLost-once", f"{lab} protocol {p.pid}: connectionLost called {kinds.count('lost')} times"))
            if "lost" in kinds and kinds[kinds.index("lost") + 1:]:
                viol.append(("nothing-after-lost", f"{lab} protocol {p.pid}: {kinds[kinds.index('lost') + 1:]} after connectionLost"))
            if p.kind == "full" and ("rlost" in kinds or "wlost" in kinds):
                viol.append(("half-close-on-normal", f"{lab} protocol {p.pid} is not half-closeable but got {kinds}"))
            if p.kind == "half":
                if kinds.count("rlost") > 1 or kinds.count("wlost") > 1:
                    viol.append(("connectionLost-once", f"{lab} half-closeable protocol {p.pid}: {kinds}"))
                if "rlost" in kinds and "data" in kinds[kinds.index("rlost"):]:
                    viol.append(("nothing-after-lost", f"{lab} half-closeable protocol {p.pid}: dataReceived after readConnectionLost"))

    # ---- write after close is an error and sends nothing
    closed_w = set()   # (side, pid) whose write side is closed
    for op, lab, effs, err, summ, _arr in run.steps:
        k = op[0]
        for e in effs:   # a completed close of a normal protocol closes its write side as well
            if e.startswith("lost "):
                closed_w.add((lab, int(e.split()[1])))
        if k in ("lose", "losew") and err is None:
            closed_w.add((lab, op[2]))
        if k == "write" and (lab, op[2]) in closed_w:
            if err is None or any(e.startswith("tx-data") for e in effs):
                viol.append(("write-after-close", f"{lab} protocol {op[2]}: write after close gave {err} and sent {effs}"))
        if k in ("lose", "losew") and err is None and (lab, op[2]) in closed_w and False:
            pass

    # ---- an OPEN for a subchannel id that is in use never builds a second protocol; a re-sent record (one this
    #      side has already handled) changes nothing
    live = {"A": set(), "B": set()}
    for op, lab, effs, err, summ, arr in run.steps:
        scids = [r.scid for r in arr if isinstance(r, Open)]
        if op[0] == "rx" and op[2] == "open":
            scids = [op[4]]
        nb = sum(1 for e in effs if e.startswith("build "))
        if any(sc in live[lab] for sc in scids) and nb >= len([sc for sc in scids if sc not in live[lab]]) + 1:
            viol.append(("open-exactly-once", f"{lab}: OPEN for subchannel {scids}, in use, built another protocol: {effs}"))
        if op[0] == "deliver" and not arr and any(not e.startswith(("ack ", "log ")) for e in effs):
            viol.append(("resent-record-accepted", f"{lab}: a record it had already handled was re-sent and caused {effs}"))
        if op[0] == "select" and not arr and any(not e.startswith(("ack ", "log ")) for e in effs):
            viol.append(("resent-record-accepted", f"{lab}: select() drained only records it had already handled (re-sent after "
                                                   f"a loss) and that caused {effs}"))
        live[lab] = {int(t.split(":")[0]) for t in summ[summ.index("open=[") + 6:summ.index("]")].split()}

    if not honest:
        return viol, tags + ["stream:adversarial"]

    # ---- honest peers: every OPEN appears exactly once, under its name, at the right moment;
    #      the peer's reads are exactly the records delivered, in order, after connectionMade
    for lab, s in sides.items():
        other = sides["A" if lab == "B" else "B"]
        exp = c["exp" + lab]
        listeners = set()
        pending = {}                 # name -> [scid] in arrival order
        arrived = {}                 # scid -> list of expected read-side callbacks (kind, payload)
        refused = set()
        names = {}
        for op, slab, effs, err, summ, arr in run.steps:
            if slab != lab:
                continue
            builds = [(int(e.split()[1]), e.split()[2]) for e in effs if e.startswith("build ")]
            if op[0] == "listen" and err is None:
                name = op[2]
                want = pending.pop(name, [])
                got = [s.protos[pid].transport._scid for pid, _ in builds]
                if got != want or any(n != hs(name) for _, n in builds):
                    viol.append(("open-exactly-once", f"{lab} listen({name!r}): pending opens {want} but protocols built for {got}"))
                listeners.add(name)
                continue
            if op[0] == "listen" and err is not None:
                if builds:
                    viol.append(("open-exactly-once", f"{lab} failed listen built protocols {builds}"))
                continue
            if op[0] == "connect":
                # locally opened: exactly one protocol for it, at once
                if err is None and len(builds) != 1:
                    viol.append(("open-exactly-once", f"{lab} connect({op[2]!r}) built {len(builds)} protocols"))
                for pid, _ in builds:
                    arrived.setdefault(s.protos[pid].transport._scid, [])
                continue
            # the peer's records that reach this side's Manager in this step (one on a delivery; the parked burst on
            # select()), each exactly once, in the order sent
            todo = list(builds)
            touched = set()
            for r in arr:
                if isinstance(r, Open):
                    name = r.subprotocol
                    names[r.scid] = name
                    arrived.setdefault(r.scid, [])
                    if name in listeners:
                        b = todo.pop(0) if todo else None
                        if b is None or b[1] != hs(name) or s.protos[b[0]].transport._scid != r.scid:
                            viol.append(("open-exactly-once", f"{lab} has a listener for {name!r} but OPEN {r.scid} built {b} "
                                                              f"(step {op[0]}: {effs})"))
                    elif exp is not None and name not in exp:
                        tags.append("open:refused")
                        refused.add(r.scid)
                        sent_close = [e for e in effs if e.startswith("tx-close ") and int(e.split()[2]) == r.scid]
                        held = any(t.split(":")[0] == str(r.scid)
                                   for t in summ[summ.index("open=[") + 6:summ.index("]")].split())
                        if not sent_close or held:
                            viol.append(("unexpected-refused", f"{lab} declared expected_subprotocols={exp} and has no listener for {name!r}: "
                                                               f"OPEN {r.scid} must be refused with CLOSE and dropped, got {effs} | {summ}"))
                    else:
                        tags.append("open:pending")
                        pending.setdefault(name, []).append(r.scid)
                        touched.add(name)
                        if f"{r.scid}:unconnected" not in summ[summ.index("open=[") + 6:summ.index("]")].split():
                            viol.append(("open-exactly-once", f"{lab} has no listener for {name!r}: OPEN {r.scid} must be held "
                                                              f"pending, got {effs} | {summ}"))
                elif isinstance(r, Data):
                    if r.scid in arrived and r.scid not in refused:
                        arrived[r.scid].append(("data", hx(r.data)))
                elif isinstance(r, Close):
                    if r.scid in arrived and r.scid not in refused:
                        arrived[r.scid].append(("close", None))
            for name in touched:
                if f"{hs(name)}:{len(pending[name])}" not in summ.split("pend=")[1]:
                    viol.append(("open-exactly-once", f"{lab}: {len(pending[name])} OPEN(s) for {name!r} must be pending, got {summ}"))
            if todo:
                viol.append(("open-exactly-once", f"{lab} {op[0]} built protocols {todo} nobody asked for ({effs})"))
        # reads of every protocol = the records that arrived for its subchannel, in order
        for p in s.protos:
            scid = p.transport._scid
            evs = [e.split() for e in s.effects if e.split()[0] in ("data", "lost", "rlost") and int(e.split()[1]) == p.pid]
            got = [("data", e[2]) if e[0] == "data" else ("close", None) for e in evs]
            want = arrived.get(scid, [])
            if ("close", None) in want:     # nothing can follow the peer's CLOSE
                want = want[:want.index(("close", None)) + 1]
            if got != want:
                sig = "data-before-close" if [g for g in got if g[0] == "data"] != [w for w in want if w[0] == "data"] or \
                    (("close", None) in got and got[-1] != ("close", None)) else "connectionLost-once"
                viol.append((sig, f"{lab} protocol {p.pid} (subchannel {scid}): read-side callbacks {got} but the records that "
                                  f"arrived for it are {want}"))
            closes = [e for e in evs if e[0] in ("lost", "rlost")]
            if closes and ((p.kind == "full") != (closes[0][0] == "lost")):
                viol.append(("connectionLost-once", f"{lab} protocol {p.pid} kind {p.kind} was told {closes[0][0]}"))
            # data_before_close, from the WRITER's side: once this protocol has its close signal it has read everything the
            # peer ever wrote on the subchannel (what the peer's application handed to transport.write before its close),
            # whatever happened to the records on the way (parked, dropped with a connection, sent again)
            if closes:
                wrote = [e.split()[3] if len(e.split()) > 3 else "" for e in other.effects
                         if e.startswith("tx-data ") and int(e.split()[2]) == scid]
                read = [g[1] for g in got[:got.index(("close", None))] if g[0] == "data"]
                if read != wrote:
                    viol.append(("data-before-close", f"{lab} protocol {p.pid} (subchannel {scid}) got its close signal after "
                                                      f"reading {read}, but the peer had written {wrote} before closing"))
        # a successful half-close tells the protocol exactly once, at once
        told = set()
        for op, slab, effs, err, summ, _arr in run.steps:
            if slab != lab:
                continue
            if op[0] == "losew" and err is None:
                want = [] if op[2] in told else [f"wlost {op[2]}"]
                if [e for e in effs if e.startswith("wlost ")] != want:
                    viol.append(("connectionLost-once", f"{lab} loseWriteConnection on {op[2]} gave {effs}, expected {want}"))
            elif any(e.startswith("wlost ") for e in effs):
                viol.append(("connectionLost-once", f"{lab} {op[0]} gave {effs}"))
            told |= {int(e.split()[1]) for e in effs if e.startswith("wlost ")}
    if not getattr(run, "fifo_ok", True):
        tags.append("waiting:not-fifo")
    return viol, tags


# ---------------------------------------------------------------------------
# cases

def mkcase(ops, pre=(), expA=None, expB=None, sa="b1", sb="a0", early=(), please_order="AB", burst=0):
    return dict(sa=sa, sb=sb, expA=expA, expB=expB, early=[list(o) for o in early], please_order=please_order,
                pre=[list(o) for o in pre], burst=burst, ops=[list(o) for o in ops])


CORPUS = [
    # F2 / fix 49ca880: declared ["a"], peer opens "b" -> refused with CLOSE, not held
    mkcase([("connect", "A", "b", "full"), ("deliver", "A"), ("deliver", "B"), ("deliver", "A")], expB=["a"]),
    mkcase([("connect", "A", "b", "full"), ("deliver", "A")], expB=[]),
    mkcase([("connect", "B", "é", "half"), ("deliver", "B"), ("deliver", "A"), ("write", "B", 0, "01")], expA=["a", "b"]),
    # expected and listened later
    mkcase([("connect", "A", "a", "full"), ("write", "A", 0, "aa"), ("write", "A", 0, "bb"), ("lose", "A", 0),
            ("deliver", "A"), ("deliver", "A"), ("deliver", "A"), ("deliver", "A"), ("listen", "B", "a", "full"),
            ("deliver", "B"), ("write", "A", 0, "cc"), ("lose", "A", 0), ("write", "B", 0, "dd")], expB=["a"]),
    # two pending opens, connected in arrival order at listen
    mkcase([("connect", "A", "a", "full"), ("connect", "A", "b", "full"), ("connect", "A", "a", "half"),
            ("deliver", "A"), ("deliver", "A"), ("deliver", "A"), ("write", "A", 2, "07"), ("deliver", "A"),
            ("listen", "B", "a", "half"), ("listen", "B", "a", "full"), ("listen", "B", "b", "full"),
            ("losew", "B", 0), ("losew", "B", 0), ("write", "B", 0, "09"), ("lose", "B", 0), ("deliver", "B")]),
    # both sides connect: ids
    mkcase([("connect", "A", "a", "full"), ("connect", "B", "a", "full"), ("connect", "A", "a", "full"),
            ("connect", "B", "b", "half"), ("deliver", "A"), ("deliver", "B"), ("deliver", "A"), ("deliver", "B")],
           pre=[("listen", "A", "a", "full"), ("listen", "B", "a", "full"), ("connect", "B", "x y", "full"), ("connect", "A", "", "full")]),
    # close handshake from both ends at once
    mkcase([("connect", "A", "a", "full"), ("deliver", "A"), ("lose", "A", 0), ("lose", "B", 0), ("deliver", "A"),
            ("deliver", "B"), ("write", "A", 0, "01"), ("write", "B", 0, "02"), ("lose", "A", 0), ("lose", "B", 0)],
           pre=[("listen", "B", "a", "full")], sa="a0", sb="b1"),
    # half-close both directions
    mkcase([("connect", "A", "a", "half"), ("deliver", "A"), ("losew", "A", 0), ("deliver", "A"), ("write", "B", 0, "0102"),
            ("deliver", "B"), ("losew", "B", 0), ("deliver", "B"), ("write", "B", 0, "03"), ("lose", "A", 0), ("losew", "A", 0)],
           pre=[("listen", "B", "a", "half")]),
    # adversarial: duplicate OPEN, DATA/CLOSE for unknown ids, DATA after CLOSE, old seqnum
    mkcase([("listen", "B", "a", "full"), ("rx", "B", "open", 0, 1, "a"), ("rx", "B", "open", 1, 1, "a"),
            ("rx", "B", "data", 2, 7, "00"), ("rx", "B", "close", 3, 7), ("rx", "B", "close", 4, 1),
            ("rx", "B", "data", 5, 1, "01"), ("rx", "B", "open", 2, 3, "a"), ("rx", "B", "open", 6, 1, "a"),
            ("write", "B", 0, "05"), ("lose", "B", 0)]),
    mkcase([("rx", "A", "open", 0, 2, "a"), ("rx", "A", "data", 1, 2, "aa"), ("rx", "A", "close", 2, 2),
            ("rx", "A", "data", 3, 2, "bb"), ("listen", "A", "a", "half"), ("rx", "A", "data", 4, 2, "cc"),
            ("losew", "A", 0), ("rx", "A", "open", 5, 2, "a")]),
    mkcase([("connect", "A", "a", "full")], sa="same", sb="same"),
    # several pending OPENs for one name, each with its own queued DATA, the first also with a queued CLOSE
    # (Props: exPending2 / listen_connects_all_pending / each_pending_gets_its_own_data)
    mkcase([("connect", "A", "a", "full"), ("connect", "A", "a", "full"), ("connect", "A", "b", "half"),
            ("deliver", "A"), ("deliver", "A"), ("deliver", "A"), ("write", "A", 0, "07"), ("write", "A", 1, "08"),
            ("write", "A", 2, "0a"), ("lose", "A", 0), ("write", "A", 1, "09"), ("losew", "A", 2),
            ("deliver", "A"), ("deliver", "A"), ("deliver", "A"), ("deliver", "A"), ("deliver", "A"), ("deliver", "A"),
            ("listen", "B", "a", "full"), ("listen", "B", "b", "half"), ("deliver", "B"), ("deliver", "B"),
            ("write", "B", 1, "0b"), ("deliver", "B"), ("deliver", "A")]),
    # forged CLOSE (Props: data_before_close_unrestricted_false): a record injected from outside makes
    # connectionLost overtake data in flight -- model and real code agree; outside the honest environment
    mkcase([("listen", "B", "a", "full"), ("connect", "A", "a", "full"), ("deliver", "A"), ("write", "A", 0, "07"),
            ("lose", "A", 0), ("rx", "B", "close", 5, 1), ("deliver", "A"), ("deliver", "A")]),
    # connect() right after dilate(), before the peer's PLEASE (no role yet), then both sides open subchannels:
    # ids stay odd/even and every OPEN appears once on the other side
    mkcase([("connect", "B", "a", "full"), ("connect", "A", "b", "half"), ("deliver", "A"), ("deliver", "A"), ("deliver", "A"),
            ("deliver", "B"), ("deliver", "B"), ("write", "A", 0, "01"), ("write", "B", 0, "02"), ("deliver", "A"), ("deliver", "B"),
            ("lose", "A", 0), ("deliver", "A"), ("deliver", "B")],
           early=[("connect", "A", "a", "full"), ("connect", "A", "a", "full"), ("listen", "B", "a", "full")],
           pre=[("listen", "A", "a", "full"), ("listen", "B", "b", "half")]),
    mkcase([("connect", "A", "a", "full"), ("deliver", "A"), ("deliver", "B"), ("deliver", "B"), ("deliver", "A")],
           early=[("connect", "B", "a", "full"), ("connect", "B", "", "full")], sa="a0", sb="b1", please_order="BA",
           pre=[("connect", "B", "a", "half")]),
    mkcase([("deliver", "A"), ("deliver", "B"), ("listen", "A", "a", "full"), ("listen", "B", "a", "full")],
           early=[("connect", "A", "a", "full"), ("connect", "B", "a", "full")]),
    # --- (re)connections: real DilatedConnectionProtocol + the Connector's accept turn
    # the Leader connect()ed twice before dilation; both OPENs share the chunk with its KCM and are parked
    mkcase([("deliver", "A"), ("write", "A", 0, "01"), ("write", "A", 1, "02"), ("deliver", "A"), ("deliver", "A")],
           early=[("connect", "A", "a", "full"), ("connect", "A", "a", "full")], pre=[("listen", "B", "a", "full")], burst=2),
    # the Leader opens, writes and closes while the link is down: OPEN+DATA+CLOSE arrive with the new KCM
    mkcase([("listen", "B", "a", "full"), ("drop",), ("connect", "A", "a", "full"), ("write", "A", 0, "07"), ("lose", "A", 0),
            ("link", 3), ("deliver", "B"), ("deliver", "A"), ("deliver", "B")]),
    # several chunks written offline on an existing subchannel; only part of the burst shares the KCM's chunk
    mkcase([("listen", "B", "a", "full"), ("connect", "A", "a", "full"), ("deliver", "A"), ("drop",),
            ("write", "A", 0, "01"), ("write", "A", 0, "02"), ("write", "A", 0, "03"), ("write", "B", 0, "04"), ("link", 2),
            ("deliver", "A"), ("deliver", "B"), ("lose", "B", 0), ("deliver", "B"), ("deliver", "A")]),
    # ACKs black-holed, then the link drops: what was processed is re-sent and must be recognised as old
    mkcase([("listen", "B", "a", "full"), ("connect", "A", "a", "full"), ("write", "A", 0, "07"), ("hold", "B"),
            ("deliver", "A"), ("deliver", "A"), ("lose", "A", 0), ("deliver", "A"), ("drop",), ("link", 0),
            ("deliver", "A"), ("deliver", "A"), ("deliver", "A"), ("deliver", "B"), ("deliver", "A")]),
    # the same, the re-sent records coming back as a burst with the KCM; follower-initiated traffic too
    mkcase([("listen", "B", "a", "half"), ("listen", "A", "b", "full"), ("connect", "A", "a", "half"), ("connect", "B", "b", "full"),
            ("write", "A", 0, "07"), ("hold", "B"), ("hold", "A"), ("deliver", "A"), ("deliver", "A"), ("deliver", "B"),
            ("losew", "A", 0), ("drop",), ("write", "B", 0, "08"), ("link", 3), ("deliver", "A"), ("deliver", "B"),
            ("deliver", "B"), ("deliver", "A"), ("deliver", "B")]),
    # a second loss right after a reconnect
    mkcase([("listen", "B", "a", "full"), ("connect", "A", "a", "full"), ("drop",), ("write", "A", 0, "01"), ("link", 1),
            ("drop",), ("write", "A", 0, "02"), ("lose", "A", 0), ("link", 4), ("deliver", "A"), ("deliver", "B"), ("deliver", "A")],
           sa="a0", sb="b1"),
    # --- a connection lost between the KCM chunk and the Follower's accept turn (Props: exDropParkedOps).
    # DATA+CLOSE are parked on the candidate connection; the Leader's `reconnect` overtakes the accept turn: the
    # Connector is stopped, the parked records are gone; they come again with the next KCM and are read once, in order
    mkcase([("listen", "B", "a", "full"), ("connect", "A", "a", "full"), ("deliver", "A"), ("write", "A", 0, "07"), ("lose", "A", 0),
            ("hold", "A"), ("drop",), ("linklost", 2, "reconnect"), ("link", 2), ("deliver", "B"), ("deliver", "A"), ("deliver", "B")]),
    # the same with the whole life OPEN+DATA+CLOSE parked and lost twice, then arriving one by one
    mkcase([("listen", "B", "a", "full"), ("drop",), ("connect", "A", "a", "full"), ("write", "A", 0, "07"), ("lose", "A", 0),
            ("linklost", 3, "reconnect"), ("linklost", 2, "reconnect"), ("link", 0), ("deliver", "A"), ("deliver", "A"),
            ("deliver", "A"), ("deliver", "B"), ("deliver", "A")]),
    # the transport dies before the accept turn: the turn still drains what was parked; the re-sent copies are old
    mkcase([("listen", "B", "a", "full"), ("connect", "A", "a", "full"), ("deliver", "A"), ("write", "A", 0, "07"), ("lose", "A", 0),
            ("hold", "A"), ("drop",), ("linklost", 2, "transport"), ("link", 2), ("deliver", "B"), ("deliver", "A"), ("deliver", "B")]),
    # the very first connection is lost with a parked burst (calls made before dilation), follower side opens too
    dict(mkcase([("deliver", "A"), ("deliver", "A"), ("deliver", "B"), ("write", "A", 0, "01"), ("deliver", "A")],
                early=[("connect", "A", "a", "full"), ("connect", "A", "a", "half")],
                pre=[("listen", "B", "a", "full"), ("connect", "B", "x y", "full")], burst=1), first=["linklost", 2, "reconnect"]),
    # --- declared sets in honest two-sided runs (Props: exDeclOps, exDeclBurstOps)
    # a refused OPEN next to an accepted one that reads data and is closed; then a loss and a re-sent record
    mkcase([("connect", "A", "b", "full"), ("connect", "A", "a", "full"), ("write", "A", 0, "09"), ("write", "A", 1, "07"),
            ("lose", "A", 1), ("deliver", "A"), ("deliver", "A"), ("deliver", "A"), ("deliver", "A"), ("deliver", "A"),
            ("deliver", "B"), ("hold", "B"), ("drop",), ("link", 0), ("deliver", "A"), ("deliver", "B"), ("deliver", "A")],
           pre=[("listen", "B", "a", "full")], expB=["a"]),
    # declared set + late listener + the burst OPEN a / DATA / CLOSE / OPEN b (refused) parked with the KCM
    mkcase([("drop",), ("connect", "A", "a", "full"), ("write", "A", 0, "07"), ("lose", "A", 0), ("connect", "A", "b", "full"),
            ("link", 4), ("listen", "B", "a", "full"), ("deliver", "B"), ("deliver", "B"), ("deliver", "A"), ("write", "A", 1, "08")],
           expB=["a"]),
    # the same burst lost before the accept turn, then parked again
    mkcase([("drop",), ("connect", "A", "a", "half"), ("write", "A", 0, "07"), ("losew", "A", 0), ("connect", "A", "b", "full"),
            ("linklost", 4, "reconnect"), ("link", 3), ("listen", "B", "a", "half"), ("deliver", "A"), ("deliver", "B"),
            ("deliver", "B"), ("deliver", "A"), ("write", "B", 0, "0a"), ("losew", "B", 0), ("deliver", "B"), ("deliver", "B")],
           expB=["a", "c"], expA=[]),
    # the reactor's order around a late listen(): OPEN+DATA are held; the opener closes; listen(); the CLOSE is read from
    # the socket before the listener's next eventual turn: the protocol reads the data, THEN gets connectionLost
    mkcase([("connect", "A", "a", "full"), ("write", "A", 0, "68656c6c6f"), ("deliver", "A"), ("deliver", "A"), ("lose", "A", 0),
            ("listen", "B", "a", "full"), ("deliver", "A"), ("deliver", "B"), ("deliver", "A")]),
    # the same with more DATA read in that I/O phase: it must come after the DATA that was queued
    mkcase([("connect", "A", "a", "half"), ("write", "A", 0, "01"), ("deliver", "A"), ("deliver", "A"), ("write", "A", 0, "02"),
            ("losew", "A", 0), ("listen", "B", "a", "half"), ("deliver", "A"), ("deliver", "A"), ("write", "B", 0, "03"),
            ("deliver", "B")]),
    # a peer that opens one of OUR ids: the next local connect() raises AssertionError (open_exactly_once, case 3)
    mkcase([("rx", "A", "open", 0, 1, "a"), ("connect", "A", "b", "full"), ("connect", "A", "b", "full"),
            ("listen", "A", "a", "full"), ("write", "A", 0, "01")]),
]


def rand_case(rng, adversarial=False, nops=None):
    exps = [None, [], ["a"], ["a", "b"]]
    sa, sb = rng.choice([("b1", "a0"), ("a0", "b1"), ("0f", "f0"), ("ff00", "ff01")])
    c = dict(sa=sa, sb=sb, expA=rng.choice(exps), expB=rng.choice(exps), pre=[], ops=[])
    names = rng.choice([["a"], ["a", "b"], ["a", "é"], NAMES])
    c["early"] = []
    c["please_order"] = rng.choice(["AB", "BA"])
    if rng.random() < 0.5:
        for _ in range(rng.choice([1, 1, 2, 3])):
            c["early"].append([rng.choice(["connect", "connect", "connect", "listen"]), rng.choice("AB"), rng.choice(names),
                               rng.choice(["full", "full", "half"])])
    for _ in range(rng.choice([0, 0, 1, 2, 3])):
        c["pre"].append([rng.choice(["connect", "listen", "listen"]), rng.choice("AB"), rng.choice(names), rng.choice(["full", "full", "half"])])
    n = nops or rng.choice([6, 12, 20, 35])
    nconn = sum(1 for o in c["pre"] + c["early"] if o[0] == "connect")
    ctr = 0
    seq = {"A": 0, "B": 0}
    for _ in range(n):
        side = rng.choice("AB")
        x = rng.random()
        if adversarial and x < 0.25:
            rk = rng.choice(["open", "data", "close"])
            q = seq[side] if rng.random() < 0.8 else rng.randrange(0, seq[side] + 2)
            seq[side] = max(seq[side], q + 1)
            scid = rng.choice([0, 1, 2, 3, 4, 5])
            if rk == "open":
                c["ops"].append(["rx", side, "open", q, scid, rng.choice(names)])
            elif rk == "data":
                ctr += 1
                c["ops"].append(["rx", side, "data", q, scid, "%02x" % (ctr % 256)])
            else:
                c["ops"].append(["rx", side, "close", q, scid])
        elif x < 0.40 and not adversarial or (adversarial and x < 0.35):
            if adversarial:
                continue
            c["ops"].append(["deliver", side])
        elif x < 0.52 and nconn < 4:
            nconn += 1
            c["ops"].append(["connect", side, rng.choice(names), rng.choice(["full", "full", "half"])])
        elif x < 0.62:
            c["ops"].append(["listen", side, rng.choice(names), rng.choice(["full", "full", "half"])])
        elif x < 0.80:
            ctr += 1
            ln = rng.choice([1, 1, 2, 0])
            c["ops"].append(["write", side, rng.randrange(0, 4), ("%02x" % (ctr % 256)) * ln])
        elif x < 0.92:
            c["ops"].append([rng.choice(["lose", "lose", "losew"]), side, rng.randrange(0, 4)])
        else:
            if not adversarial:
                c["ops"].append(["deliver", side])
    if not adversarial and rng.random() < 0.45:
        # connection losses: acks (or everything) of one direction black-holed, drop, activity while down, reconnect
        # with a burst sharing the KCM's chunk
        cut = rng.randrange(0, len(c["ops"]) + 1)
        tail = c["ops"][cut:]
        c["ops"] = c["ops"][:cut]
        for _ in range(rng.choice([1, 1, 2])):
            if rng.random() < 0.6:
                c["ops"].append(["hold", rng.choice("AB")])
                c["ops"] += [["deliver", rng.choice("AB")] for _ in range(rng.choice([0, 1, 2, 4]))]
            c["ops"].append(["drop"])
            k = rng.choice([0, 1, 2, 3])
            c["ops"] += tail[:k]
            tail = tail[k:]
            for _ in range(rng.choice([0, 0, 0, 1, 1, 2])):
                # this connection is lost between the KCM chunk and the Follower's accept turn
                c["ops"].append(["linklost", rng.choice([0, 1, 2, 3, 5]), rng.choice(["reconnect", "reconnect", "transport"])])
                k = rng.choice([0, 0, 1, 2])
                c["ops"] += tail[:k]
                tail = tail[k:]
            c["ops"].append(["link", rng.choice([0, 1, 2, 3, 5])])
            k = rng.choice([1, 3, 6])
            c["ops"] += tail[:k]
            tail = tail[k:]
        c["ops"] += tail
    if rng.random() < 0.3:
        c["burst"] = rng.choice([1, 2, 3])
        if not adversarial and rng.random() < 0.3:
            c["first"] = ["linklost", rng.choice([1, 2, 3]), rng.choice(["reconnect", "transport"])]
    if not adversarial:
        # let everything in flight arrive (the close handshakes complete)
        c["ops"] += [["deliver", "A"], ["deliver", "B"]] * rng.choice([0, 3, 8])
    return c


def exhaustive(depth):
    """every sequence of `depth` operations over one subchannel's alphabet, for the four
    listener/expected set-ups"""
    alpha = [("deliver", "A"), ("deliver", "B"), ("write", "A", 0, "aa"), ("write", "B", 0, "bb"),
             ("lose", "A", 0), ("lose", "B", 0), ("listen", "B", "a", "full")]
    for setup in range(3):
        for seqn in itertools.product(range(len(alpha)), repeat=depth):
            ops = [("connect", "A", "a", "full")] + [alpha[i] for i in seqn] + [("deliver", "A"), ("deliver", "B")] * 2
            if setup == 0:
                yield mkcase(ops, pre=[("listen", "B", "a", "full")])
            elif setup == 1:
                yield mkcase(ops, expB=["a"])
            else:
                yield mkcase(ops, expB=["b"])


def phases(maxn):
    """who calls connect() how often in which phase (before PLEASE / before the connection / later), both role
    assignments; every OPEN is delivered and both sides listen"""
    for sa, sb in (("b1", "a0"), ("a0", "b1")):
        for counts in itertools.product(range(maxn + 1), repeat=6):
            ea, eb, pa, pb, la, lb = counts
            if ea + eb == 0 or ea + pa + la + eb + pb + lb > 4:
                continue
            for order in ("AB", "BA"):
                ops = [("connect", "A", "a", "full")] * la + [("connect", "B", "a", "full")] * lb
                ops += [("deliver", "A"), ("deliver", "B")] * 4 + [("listen", "A", "a", "full"), ("listen", "B", "a", "full")]
                yield mkcase(ops, sa=sa, sb=sb, please_order=order,
                             early=[("connect", "A", "a", "full")] * ea + [("connect", "B", "a", "full")] * eb,
                             pre=[("connect", "A", "a", "full")] * pa + [("connect", "B", "a", "full")] * pb)


def reconnects(full):
    """small-scope enumeration around one loss: which records were delivered and whose acks got through before the
    drop, what is done while the link is down, how many records share the chunk with the new KCM; both roles"""
    offline = [[], [("write", "A", 0, "0b")], [("write", "A", 0, "0b"), ("lose", "A", 0)],
               [("connect", "A", "a", "full"), ("write", "A", 1, "0c"), ("lose", "A", 1)], [("lose", "B", 0), ("write", "A", 0, "0d")]]
    for sa, sb in ((("b1", "a0"), ("a0", "b1")) if full else (("b1", "a0"),)):
        for hold in (None, "A", "B"):
            for ndel in range(0, 4):
                for off in offline:
                    for burst in ((0, 1, 2, 3, 4) if full else (0, 2, 3)):
                        for lost in (None, "reconnect", "transport"):
                            ops = [("listen", "B", "a", "full"), ("connect", "A", "a", "full"), ("write", "A", 0, "0a")]
                            if hold:
                                ops.append(("hold", hold))
                            ops += [("deliver", "A")] * ndel + [("lose", "A", 0)] * (ndel == 3) + [("deliver", "A")] * (ndel == 3)
                            ops += [("drop",)] + off
                            if lost:
                                # the first reconnection is lost before the accept turn, with `burst` records parked
                                ops += [("linklost", burst, lost), ("write", "A", 0, "0e")]
                            ops += [("link", burst)] + [("deliver", "A"), ("deliver", "B")] * 5
                            yield mkcase(ops, sa=sa, sb=sb)
    for burst in range(0, 4):
        for ea in range(0, 4):
            yield mkcase([("deliver", "A"), ("deliver", "A"), ("deliver", "A")], burst=burst, pre=[("listen", "B", "a", "full")],
                         early=[("connect", "A", "a", "full")] * ea)
            yield mkcase([("deliver", "B"), ("deliver", "B"), ("deliver", "B")], burst=burst, pre=[("listen", "B", "a", "full")],
                         early=[("connect", "A", "a", "full")] * ea, sa="a0", sb="b1")


def declared_bursts(full):
    """declared sets x listener timing x a burst OPEN a / DATA / CLOSE / OPEN b / DATA parked with the KCM x loss of that
    connection before the accept turn: a refused OPEN next to an accepted one, across losses and re-sends"""
    for expB in ([], ["a"], ["a", "b"], ["b"], None):
        for when in ("pre", "late", "never"):
            for burst in ((0, 1, 2, 3, 4, 5, 6) if full else (0, 3, 5)):
                for lost in (None, "reconnect", "transport"):
                    for kind in (("full", "half") if full else ("full",)):
                        ops = [("drop",), ("connect", "A", "a", kind), ("write", "A", 0, "07"),
                               ("losew" if kind == "half" else "lose", "A", 0), ("connect", "A", "b", "full"), ("write", "A", 1, "08")]
                        if lost:
                            ops.append(("linklost", burst, lost))
                        ops.append(("link", burst))
                        if when == "late":
                            ops.append(("listen", "B", "a", kind))
                        ops += [("deliver", "A"), ("deliver", "B")] * 6
                        ops += [("write", "A", 1, "09"), ("lose", "A", 1), ("deliver", "A"), ("deliver", "A"), ("deliver", "B")]
                        yield mkcase(ops, expB=expB, pre=[("listen", "B", "a", kind)] if when == "pre" else [])


def many_opens(n, second=0, leader_opens=True, extra=()):
    """`n` subchannels for ONE subprotocol name (and `second` for another, interleaved) are opened and their OPENs
    delivered before the other side listens for the name; then it listens, and everything is closed again"""
    src, dst = ("A", "B") if leader_opens else ("B", "A")
    ops = []
    j = 0
    for i in range(n):
        ops.append(("connect", src, "a", "full"))
        ops.append(("deliver", src))
        if j < second and (i * second) // max(n, 1) >= j:
            ops.append(("connect", src, "b", "half" if j % 2 else "full"))
            ops.append(("deliver", src))
            j += 1
    while j < second:
        ops.append(("connect", src, "b", "full"))
        ops.append(("deliver", src))
        j += 1
    ops += list(extra)
    ops.append(("listen", dst, "a", "full"))
    if second:
        ops.append(("listen", dst, "b", "full"))
    # a write on the oldest and on the newest, then close the oldest from the listening side
    ops += [("write", src, 0, "0e"), ("deliver", src), ("write", src, n + second - 1, "0f"), ("deliver", src),
            ("lose", dst, 0), ("deliver", dst), ("deliver", src)]
    return mkcase(ops, sa="b1" if leader_opens else "a0", sb="a0" if leader_opens else "b1")


WIRE_LIMIT = 2 ** 32            # to_be4: 0 <= value < 2**32
LAST_ODD_IN = (WIRE_LIMIT - 1 - 1) // 2     # allocations after which the Leader's next id is 2**32 - 1 (the last odd one that fits)
LAST_EVEN_IN = (WIRE_LIMIT - 2 - 2) // 2    # … the Follower's next id is 2**32 - 2


def boundary_case(la, lb, na, nb, leader_is_a=True, names=("a", "b"), kind="full", data=True, mix=0):
    """the 4-byte boundary of the subchannel id.  The real Managers' allocation counters are fast-forwarded (`ffwd`: the
    stand-in for ~2**31 earlier connect()s, which nobody can run) so that side A / B has `la` / `lb` allocations left
    before its next id no longer fits the wire field (None: not fast-forwarded, negative: already past it); then A
    calls connect() `na` times and B `nb` times, interleaved (`mix`), everything is delivered, every subchannel that
    exists carries data both ways and is closed.  No connection loss after an id stopped fitting: Outbound's re-send of
    a record that cannot be encoded is outside the model."""
    sa, sb = ("b1", "a0") if leader_is_a else ("a0", "b1")
    pre = [("listen", "A", n, kind) for n in names] + [("listen", "B", n, kind) for n in names]
    ops = []
    for lab, left in (("A", la), ("B", lb)):
        if left is not None:
            last = LAST_ODD_IN if (lab == "A") == leader_is_a else LAST_EVEN_IN
            ops.append(("ffwd", lab, last + 1 - left))
    todo = {"A": na, "B": nb}
    i = 0
    order = []
    while todo["A"] or todo["B"]:
        lab = "AB"[(i + mix) % 2] if mix < 2 else ("A" if todo["A"] else "B")
        if not todo[lab]:
            lab = "B" if lab == "A" else "A"
        todo[lab] -= 1
        order.append(lab)
        i += 1
    for j, lab in enumerate(order):
        ops.append(("connect", lab, names[j % len(names)], kind))
        if mix == 3:
            ops.append(("deliver", lab))
    ops += [("deliver", "A"), ("deliver", "B")] * (na + nb)
    if data:
        for pid in range(0, min(na + nb, 6)):
            for lab in "AB":
                ops.append(("write", lab, pid, "%02x" % (16 * (lab == "B") + pid)))
        ops += [("deliver", "A"), ("deliver", "B")] * (2 * min(na + nb, 6))
        for pid in range(0, min(na + nb, 6)):
            ops.append(("lose" if kind == "full" else "losew", "AB"[pid % 2], pid))
        ops += [("deliver", "A"), ("deliver", "B")] * (2 * min(na + nb, 6))
    return mkcase(ops, pre=pre, sa=sa, sb=sb)


def boundary_cases(rng, full):
    out = [
        # the Leader has exactly one id left (2**32 - 1); it opens three times while the Follower opens its first ones
        boundary_case(1, None, 3, 2),
        boundary_case(1, None, 3, 2, leader_is_a=False),     # … the Follower (side A here) has 2**32 - 2 left
        # both sides at their last id
        boundary_case(1, 1, 2, 2, mix=1),
        boundary_case(2, 1, 4, 3, kind="half"),
        # already past the field: every connect() fails, the peer is unaffected
        boundary_case(0, None, 2, 2),
        boundary_case(-3, 0, 1, 1, data=False),
        # far from the boundary after a long life: nothing special
        boundary_case(1000, 5, 3, 3, mix=3),
    ]
    for _ in range(40 if full else 6):
        la = rng.choice([None, 0, 1, 1, 2, 3])
        lb = rng.choice([None, 0, 1, 1, 2, 3])
        if la is None and lb is None:
            la = 1
        out.append(boundary_case(la, lb, rng.choice([1, 2, 3, 4]), rng.choice([0, 1, 2, 3]), leader_is_a=rng.random() < 0.5,
                                 kind=rng.choice(["full", "full", "half"]), data=rng.random() < 0.7, mix=rng.choice([0, 1, 2, 3]),
                                 names=rng.choice([("a",), ("a", "b"), ("é", "a")])))
    if full:
        for la in (None, -1, 0, 1, 2):
            for lb in (None, 0, 1, 2):
                for leader_is_a in (True, False):
                    if la is None and lb is None:
                        continue
                    out.append(boundary_case(la, lb, 3, 3, leader_is_a=leader_is_a, mix=(la or 0) % 3, data=False))
    return out


def late_listen_io(full):
    """OPEN (+DATA, +CLOSE) held for a listener that comes later, and the reactor's order around that listen(): the
    peer's NEXT record(s) for the held subchannel(s) -- more DATA, the CLOSE, another OPEN -- are read from the socket
    right after the turn in which listen() ran and BEFORE the side's next eventual turn (a record handed over by
    listen() must not be overtaken by one read afterwards); then the listener's application answers and closes"""
    for leader_opens in ((True, False) if full else (True,)):
        src, dst = "AB"
        for kind in (("full", "half") if full else ("full",)):
            close = "lose" if kind == "full" else "losew"
            for nopen in ((1, 2, 3) if full else (1, 2)):
                for queued in (0, 1, 2):                # DATA records queued on the held subchannel before listen()
                    for after in (("c",), ("d",), ("d", "c"), ("d", "d", "c"), ("o", "d", "c"), ("c", "o")) if full \
                            else (("c",), ("d", "c"), ("o", "d")):
                        ops = []
                        for i in range(nopen):
                            ops += [("connect", src, "a", kind), ("deliver", src)]
                        ctr = 0
                        for i in range(nopen):
                            for _ in range(queued):
                                ctr += 1
                                ops += [("write", src, i, "%02x" % ctr), ("deliver", src)]
                        inflight = 0
                        for what in after:             # written by the opener, still in flight when listen() is called
                            if what == "d":
                                ctr += 1
                                ops.append(("write", src, 0, "%02x" % ctr))
                                if nopen > 1:
                                    ctr += 1
                                    ops.append(("write", src, nopen - 1, "%02x" % ctr))
                                    inflight += 1
                            elif what == "c":
                                ops.append((close, src, 0))
                            else:
                                ops.append(("connect", src, "a", kind))
                            inflight += 1
                        ops.append(("listen", dst, "a", kind))
                        ops += [("deliver", src)] * inflight      # the I/O phase between listen()'s turn and the next one
                        ops += [("write", dst, 0, "ee"), ("deliver", dst), ("deliver", src), (close, dst, 0),
                                ("deliver", dst), ("deliver", src), ("deliver", dst)]
                        yield mkcase(ops, sa="b1" if leader_opens else "a0", sb="a0" if leader_opens else "b1")


def cases(rng, tier):
    out = [dict(c) for c in CORPUS]
    out += boundary_cases(rng, tier == "thorough")
    out += list(late_listen_io(tier == "thorough"))
    n = 1 if tier == "quick" else 25
    for _ in range(220 * n):
        out.append(rand_case(rng))
    for _ in range(80 * n):
        out.append(rand_case(rng, adversarial=True))
    # many OPENs for one name before a late listen(): 1, 2, 31, 32, 33, 40, 100 (+ a second name interleaved)
    for n in (1, 2, 31, 32, 33, 40):
        out.append(many_opens(n))
    out.append(many_opens(33, second=3, leader_opens=False))
    out.append(many_opens(40, second=35))
    out.append(many_opens(rng.choice([30, 34, 47, 65]), second=rng.choice([0, 1, 5]), leader_opens=rng.random() < 0.5,
                          extra=[("write", "A", 1, "aa"), ("deliver", "A"), ("lose", "A", 2), ("deliver", "A")]))
    if tier == "thorough":
        out.append(many_opens(100))
        out.append(many_opens(100, second=40, leader_opens=False))
        for n in (16, 63, 64, 65, 128, 129):
            out.append(many_opens(n, second=rng.choice([0, 2])))
    else:
        out.append(many_opens(100))
    if tier == "thorough":
        out += list(exhaustive(5))
        out += list(phases(3))
        out += list(reconnects(True))
        out += list(declared_bursts(True))
    else:
        out += list(exhaustive(2))
        out += list(phases(1))
        out += list(reconnects(False))
        out += list(declared_bursts(False))
    return out


def run_case(case):
    run = Run(case)
    txlog.addObserver(_observer)
    try:
        run.go()
    finally:
        CURRENT[0] = None
        txlog.removeObserver(_observer)
    viol, tags = oracle(run)
    tags = list(tags)
    tags.append("exp:" + exp_token(case["expA"]).replace(",", "+") + "/" + exp_token(case["expB"]).replace(",", "+"))
    for op in case["ops"] + ([case["first"]] if case.get("first") else []):
        if op[0] == "linklost":
            tags.append("op:linklost:" + op[2])
    ffwded = set()
    prev = {}
    for op, lab, effs, err, summ, _arr in run.steps:
        tags.append("op:" + op[0])
        if err:
            tags.append("err:" + err)
        # --- the id boundary
        if op[0] == "ffwd":
            ffwded.add(lab)
        if op[0] == "connect" and lab in ffwded:
            ids = [int(e.split()[2]) for e in effs if e.startswith("tx-open ")]
            if ids:
                tags.append("ids:allocated-" + ("last-that-fits" if ids[0] + 2 >= WIRE_LIMIT else "near-limit" if
                                                ids[0] + 8 >= WIRE_LIMIT else "after-ffwd"))
            elif err == "ValueError":
                tags.append("ids:beyond-wire-field:connect-fails")
        # --- I/O between the turn of a late listen() and the side's next eventual turn
        if op[0] == "deliver" and _arr and prev.get(lab) is not None:
            held = prev[lab]
            r = _arr[0]
            if getattr(r, "scid", None) in held:
                tags.append("sched:io-after-late-listen:" + type(r).__name__.lower())
            elif isinstance(r, Open):
                tags.append("sched:io-after-late-listen:open-other")
        if op[0] == "listen" and err is None and any(e.startswith("build ") for e in effs):
            side = run.sides[lab]
            prev[lab] = {side.protos[int(e.split()[1])].transport._scid for e in effs if e.startswith("build ")}
        elif op[0] != "deliver" and lab in prev:
            prev[lab] = None
        for e in effs:
            if e.split()[0] in ("lost", "rlost", "wlost", "log"):
                tags.append("ev:" + " ".join(e.split()[:1] + (e.split()[1:2] if e.startswith("log") else [])))
    tags += ["sched:" + n for n in run.notes]
    nontrivial = any(s.protos for s in run.sides.values()) or "open:refused" in tags
    return Result(run.lines, run.expect, viol, sorted(set(tags)), nontrivial)


def search(rng, seconds, seeds):
    import time
    t0 = time.time()
    for c in seeds:
        yield c, run_case(c)
    for c in CORPUS:
        yield c, run_case(c)
    for c in boundary_cases(rng, False):
        yield c, run_case(c)
    for c in late_listen_io(False):
        yield c, run_case(c)
    while time.time() - t0 < seconds:
        c = rand_case(rng, adversarial=rng.random() < 0.3)
        yield c, run_case(c)


def shrink(case):
    ops = case["ops"]
    for i in range(len(ops) - 1, -1, -1):
        c = dict(case)
        c["ops"] = ops[:i] + ops[i + 1:]
        yield c
    if case.get("first"):
        c = dict(case)
        c["first"] = None
        yield c
    early = case.get("early", [])
    for i in range(len(early)):
        c = dict(case)
        c["early"] = early[:i] + early[i + 1:]
        yield c
    pre = case.get("pre", [])
    for i in range(len(pre)):
        c = dict(case)
        c["pre"] = pre[:i] + pre[i + 1:]
        yield c
