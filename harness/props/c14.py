"""C14 — no internal failure on any legal use against a conformant server.
Correspondence of the composed control model (`WV.Client` + data layer) with the real client in
the mailbox World, and the property's oracle on the real run."""
import time

from ..core import Result
from .. import mailbox_corr as mc

ID = "C14"
MODEL = "CLIENT"
PROP_MODULES = ["WV.Props.ClientSkel", "WV.Props.C14"]
# translation validation of the control machines' method bodies against WV.Client (tools/extract.py::extract_pyir ->
# WV/Gen/PyIR.lean; agents/deepPyIR2_integration.md): part of the check as soon as the modules are installed
import os as _os
PROP_MODULES += ["WV.Props." + _m for _m in ("PyIR_Client", "PyIR_Client_Boss", "PyIR_Client_Glue", "PyIRRC_C14")
                 if _os.path.exists(_os.path.join(_os.path.dirname(_os.path.abspath(__file__)), "..", "..", "lean", "WV",
                                                  "Props", _m + ".lean"))]
NATIVE_DECIDE_MODULES = ["WV.Proofs.ClientCert"]   # the one finite certificate, disclosed (DESIGN §4)
TRUSTED = ["native_decide on the finite certificate of the closed system (WV.Proofs.ClientCert.cert: ~2.8e4 states x 34 events): adds Lean.ofReduceBool/Lean.trustCompiler, i.e. the Lean compiler, to these theorems",
           "the environment model WV.ClientEnv.enabled (what a conformant server/peer/application may do); validated by trace inclusion of real-server runs",
           "SPAKE2 / SecretBox / HKDF (the model sees only 'decrypts' / 'does not decrypt', classified by the harness with the real keys)",
           "in the model-compared world ClientService is replaced by a fake that, like the real one, completes stopService() at once when there is no connection and after the connection is closed otherwise, and autobahn's protocol by a stand-in that raises what autobahn raises (Disconnected in the closing window, PayloadExceededError over the factory's limit); the `real` cases run the real ClientService and the real autobahn protocols (oracle only, no model comparison)",
           "the mailbox server is the installed wormhole_mailbox_server (real protocol objects, in-memory DB)",
           "Dilator stub: dilate() is not called in this world (C17 covers dilation shutdown)"]
RULE = ("guided random schedules of the mailbox World (profiles: set/allocate/input code entry, matching or mismatching "
        "peer, lonely, welcome error, crowded nameplate, initial connection failure, late peer, frequent drops, a third participant whose messages the mailbox relays; message "
        "duplication and reordering; close() at any time); every step of client 0 is compared with the Lean model "
        "(outcome, 13 machine states, commands, app events); non-trivial = the run got beyond code entry and exchanged "
        "at least one server frame; plus oracle-only runs of two clients on their REAL connection stack (real ClientService, "
        "real autobahn handshake with the real server protocol, messages up to 700 kB, refused/unanswered reconnection "
        "attempts); plus the statement x exception-class table of unusable PAKE bodies (every statement of got_pake / "
        "bytes_to_dict / hexstr_to_bytes / SPAKE2 finish made to raise each class it can raise), each body alone, behind "
        "queued messages, after the honest exchange, and stashed until the application's choose_words(), compared with the "
        "model step by step (tags pake-raise:<statement>:<class>); plus recorded-only runs (tags info:...) of a holder of "
        "the code sealing unparsable `version` plaintexts and of a second side posting `add` frames with non-hex bodies / "
        "non-string or non-ASCII phases and sides through the real server; distinct = distinct canonical traces")


def cases(rng, tier):
    n = 110 if tier == "quick" else 1500
    out = []
    # corpus: one short run of every profile
    for i, p in enumerate(mc.PROFILES):
        out.append(dict(seed=1000 + i, n=80, profile=p))
    # hostile participants: several fixed walks (a third side posting unusable PAKE bodies and undecryptable bytes, with
    # and without an honest peer)
    out.extend(mc.hostile_corpus())
    out.extend(pake_raise_corpus(rng, tier))
    out.extend(mc.connection_corpus())
    out.extend(keyholder_cases())
    for nlong, rec in ([(80, 1), (200, 2)] if tier == "quick" else [(20, 1), (80, 1), (140, 3), (200, 2), (400, 2), (1100, 1)]):
        out.append(dict(kind="long", n=nlong, reconnects=rec, burst=5))
    for i in range(24 if tier == "quick" else 120):
        out.append(dict(seed=2000 + i, n=100, profile="third-alone" if i % 2 else "third"))
    for _ in range(n):
        out.append(dict(seed=rng.randrange(10**9), n=rng.choice([30, 60, 120, 200]), profile=rng.choice(mc.PROFILES)))
    for _ in range(20 if tier == "quick" else 400):
        out.append(dict(kind="pair", seed=rng.randrange(10**9), fifo=rng.random() < 0.5, match=rng.random() < 0.8,
                        nmsg=rng.randrange(1, 4), drops=rng.random() < 0.3))
    out.extend(real_cases(rng, tier))
    return out


APP_VERSIONS = [
    {},
    {"app": "caf\udce9"},                      # a lone surrogate (os.fsdecode of undecodable bytes): JSON escapes it
    {"\ud800key": ["\udfff", "\U0001f600", "e\u0301"]},
    {"n": 10 ** 30, "f": 1.5, "none": None, "t": True, "nested": {"a": [[], {}, ""]}},
    {"text": "\u2028\u2029\x00\x7f\\\"\n"},
]


def real_cases(rng, tier):
    out = [dict(kind="real", seed=rng.randrange(10**9), steps=rng.choice([20, 50, 100]), pclose=rng.choice([0.0, 0.05, 0.1]))
           for _ in range(30 if tier == "quick" else 600)]
    # fixed seeds (drawn from their own generator, so the stream above is unchanged): every kind of application
    # versions dict on each side, in a cooperative session that reaches the version exchange
    r2 = __import__("random").Random(14)
    for i in range(1, len(APP_VERSIONS)):
        for j in (0, i):
            out.append(dict(kind="real", seed=r2.randrange(10**9), steps=40, pclose=0.0, pmatch=1.0, versions=[i, j], sizes=[1, 100]))
    return out


def oracle(summary):
    """C14 on the real run: no exception escaped any entry point, API calls raised only documented
    errors, and the verdict (if closed) is 'happy' or a documented WormholeError."""
    viol = []
    for ent in summary["internal"]:
        nm = ent[2] if len(ent) > 2 else ent[0]
        viol.append(("internal:" + nm.split("(")[0] + ":" + (nm.split("(")[1].rstrip(")") if "(" in nm else ""), f"internal failure {nm} ({ent[1]})"))
    for name, val in summary["events"]:
        if name == "closed" and val not in ("happy", "LonelyError", "WrongPasswordError", "ServerError", "WelcomeError",
                                            "ServerConnectionError"):
            viol.append(("verdict:" + str(val), f"closed with undocumented verdict {val}"))
    return viol


def trace_oracle(summary):
    return oracle(summary)


DOC_VERDICTS = ("happy", "LonelyError", "WrongPasswordError", "ServerError", "WelcomeError", "ServerConnectionError")
DOC_API_ERRORS = ("OnlyOneCodeError", "KeyFormatError", "NoKeyError", "WormholeClosed", "WrongPasswordError", "LonelyError",
                  "ServerError", "WelcomeError", "ServerConnectionError")


def run_real(case):
    """legal use on the REAL connection stack (worlds/realstack.py: real ClientService, real autobahn handshake with the
    real server protocol over in-memory pipes): code entry, messages of any size, connection losses, refused and
    unanswered reconnection attempts, close() at any time; then the server is reachable and time passes.  Nothing may
    escape an entry point or a timer or be logged as an error, API calls raise only documented errors, and each
    wormhole closes exactly once with 'happy' or a documented WormholeError."""
    import random
    from ..worlds.realstack import RealWorld
    rng = random.Random(case["seed"])
    viol = []
    with RealWorld(seed=case["seed"]) as W:
        # the application's `versions=` dict travels inside the encrypted `version` message (dict_to_bytes / bytes_to_dict):
        # any JSON-serialisable value is legal, including strings UTF-8 cannot encode (PEP 383 file names), which JSON
        # escapes; case["versions"] = index into APP_VERSIONS per client (absent: the default {})
        vi = case.get("versions") or [None, None]
        cl = [W.add_client(None if vi[0] is None else APP_VERSIONS[vi[0]]), W.add_client(None if vi[1] is None else APP_VERSIONS[vi[1]])]
        code = "9-drumbeat-uproot"
        closed = [False, False]
        coded = [False, False]
        sizes = case.get("sizes", [1, 100, 700000])
        for step in range(case["steps"]):
            ci = rng.randrange(2)
            c = cl[ci]
            r = rng.random()
            if closed[ci]:
                W.advance(rng.choice([0.05, 1.0]))
            elif r < 0.2 and not coded[ci]:
                W.api(c, "set_code", code if rng.random() < case.get("pmatch", 0.85) else "9-wrong-word")
                coded[ci] = True
            elif r < 0.4:
                W.api(c, "send_message", bytes(rng.choice(sizes)))
            elif r < 0.5 and c.connected:
                c.ep.mode = rng.choice(["up", "refuse", "mute"])
                c.link.drop()
            elif r < 0.6:
                c.ep.mode = rng.choice(["up", "up", "refuse", "mute"])
            elif r < 0.6 + case.get("pclose", 0.05):
                W.api(c, "close")
                closed[ci] = True
            elif r < 0.85:
                W.advance(rng.choice([0.05, 0.3, 1.0, 7.0, 65.0]))
            else:
                W.settle()
        for c in cl:
            c.ep.mode = "up"
        W.advance(100.0, step=1.0)
        for ci in (0, 1):
            if not closed[ci]:
                W.api(cl[ci], "close")
        W.advance(200.0, step=1.0)
        verdicts = []
        for ci, c in enumerate(cl):
            vs = [v for n, v in c.events if n == "closed"]
            verdicts.append(vs[0] if vs else None)
            if len(vs) != 1:
                viol.append(("real:closed-%d-times" % len(vs), f"client {ci}: close() called, the server reachable for minutes: closed notified {len(vs)} times ({vs})"))
            elif vs[0] not in DOC_VERDICTS:
                viol.append(("verdict:" + str(vs[0]), f"client {ci}: closed with undocumented verdict {vs[0]}"))
            if vs and c.events[-1][0] != "closed":
                viol.append(("real:event-after-closed", f"client {ci}: events after closed: {c.events[c.events.index(('closed', vs[0])) + 1:]}"))
            for ent in c.internal:
                viol.append(("internal:" + ent[0], f"client {ci}: {ent} escaped a protocol entry point"))
            for ent in c.api_errors:
                if ent[1] not in DOC_API_ERRORS:
                    viol.append(("api-raises:" + ent[1], f"client {ci}: {ent[0]}() raised undocumented {ent[1]}: {ent[2]}"))
        for l in W.logged:
            viol.append(("logged-error:" + l.split("(")[0].split(":")[0][:40], f"an error was logged: {l}"))
        trace = [[n for n, v in c.events] for c in cl]
        vtags = ["real:app-versions=%s" % ("default" if v is None else v) for v in vi]
        return Result([], [], viol, ["real"] + ["real:verdict:" + str(v) for v in verdicts] + vtags, True, info=dict(trace=trace))


# ---------------------------------------------------------------------------
# Every way a participant-controlled PAKE body can make a statement of the key exchange raise
#
# `_SortedKey.got_pake(body)` runs, on bytes that ANY mailbox participant chooses (a conformant server relays them):
#     bytes_to_dict:   b.decode("utf-8") ; json.loads(...) ; assert isinstance(d, dict)
#     payload["pake_v1"]
#     hexstr_to_bytes: assert isinstance(hexstr, str) ; hexstr.encode("ascii") ; unhexlify(...)
# and `compute_key` then runs SPAKE2's finish(): side byte (OffSides / assert), decodepoint (int("") / NotOnCurve),
# subgroup checks (ValueError), reflection check (ReflectionThwarted).  Whatever any of these statements raises, the
# message is the SAME event of the environment model — an unusable PAKE (`nofield` / `invalid`) — and must end in
# `scared`, never in an exception that escapes to `ws_message` (→ Boss.error → close() reports the exception class)
# or to the application (`choose_words`).  The table below has, for each statement, a body that makes exactly that
# statement raise, for every exception class the statement can raise; `pake_stage` re-walks the statements in the
# harness's own words and tags each delivered body with `pake-raise:<statement>:<exception class>`.

def _stranger_element():
    from spake2 import SPAKE2_Symmetric
    return SPAKE2_Symmetric(b"9-some-stranger", idSymmetric=b"x",
                            entropy_f=lambda n: bytes((i * 37 + 11) % 256 for i in range(n))).start()


def pake_bodies():
    """name -> body bytes ("REFLECT": our own PAKE message, filled in by the Observer)"""
    from spake2 import ed25519_basic as ed
    st = _stranger_element()                                     # b"S" + a valid element
    order2 = bytes.fromhex("ec" + "ff" * 30 + "7f")              # (0, -1)
    order8 = bytes.fromhex("26e8958fc2b227b045c3f489f2ef98f0d5dfac05d3c63339b13802886d53fc05")
    mixed = ed.bytes_to_unknown_group_element(order2).add(ed.bytes_to_element(st[1:])).to_bytes()   # valid + torsion

    def J(hexstr):
        return ('{"pake_v1": "%s"}' % hexstr).encode("ascii")
    B = {
        # --- b.decode("utf-8"): UnicodeDecodeError
        "utf8:ff-fe": b"\xff\xfe",
        "utf8:truncated-sequence": b'{"pake_v1": "\xc3',
        "utf8:overlong": b'{"pake_v1": "\xc0\xaf"}',
        "utf8:surrogate-bytes": b'{"pake_v1": "\xed\xa0\x80"}',
        "utf8:latin1": b'{"pake_v1": "\xe9\xe9"}',
        "utf8:utf16": '{"pake_v1": "00"}'.encode("utf-16"),
        # --- json.loads: JSONDecodeError
        "json:empty": b"",
        "json:blank": b"  \n",
        "json:garbage": b"hello",
        "json:trailing-data": J("00") + b" x",
        "json:bom": b"\xef\xbb\xbf" + J("00"),
        "json:single-quotes": b"{'pake_v1': '00'}",
        "json:unterminated": b'{"pake_v1": "00"',
        "json:raw-newline-in-string": b'{"pake_v1": "0\n0"}',
        "json:bad-escape": b'{"pake_v1": "\\x00"}',
        # --- json.loads: ValueError that is NOT a JSONDecodeError (integer literal over the int/str digit limit)
        "json:huge-int-value": b'{"pake_v1": ' + b"1" * 5000 + b"}",
        "json:huge-int-elsewhere": b'{"x": ' + b"7" * 5000 + b', "pake_v1": "00"}',
        "json:huge-int-top": b"-" + b"9" * 4400,
        "json:huge-int-in-list": b"[" + b"3" * 4301 + b"]",
        # --- json.loads: RecursionError
        "json:deep-list-5000": b"[" * 5000,
        "json:deep-list-100000": b"[" * 100000,
        "json:deep-object": b'{"a":' * 5000,
        "json:deep-balanced": b"[" * 3000 + b"]" * 3000,
        "json:deep-inside-value": b'{"pake_v1": ' + b"[" * 100000 + b"]" * 100000 + b"}",
        # --- assert isinstance(d, dict): AssertionError
        "top:list": b"[]", "top:int": b"5", "top:string": b'"pake_v1"', "top:null": b"null", "top:true": b"true",
        "top:float": b"1.5", "top:nan": b"NaN", "top:infinity": b"1e99999",
        # --- payload["pake_v1"]: KeyError
        "key:empty-object": b"{}", "key:other": b'{"pake_v2": "00"}', "key:case": b'{"PAKE_V1": "00"}',
        "key:trailing-space": b'{"pake_v1 ": "00"}',
        # --- assert isinstance(hexstr, str): AssertionError
        "val:int": b'{"pake_v1": 5}', "val:null": b'{"pake_v1": null}', "val:list": b'{"pake_v1": ["00"]}',
        "val:object": b'{"pake_v1": {}}', "val:bool": b'{"pake_v1": true}', "val:float": b'{"pake_v1": 1.5}',
        "val:nan": b'{"pake_v1": NaN}', "val:duplicate-key-last-wins": b'{"pake_v1": "00", "pake_v1": 5}',
        # --- hexstr.encode("ascii"): UnicodeEncodeError
        "ascii:raw-utf8": '{"pake_v1": "éé"}'.encode("utf-8"),
        "ascii:escaped": b'{"pake_v1": "\\u00e9\\u00e9"}',
        "ascii:lone-surrogate": b'{"pake_v1": "\\ud800"}',
        "ascii:fullwidth-digits": '{"pake_v1": "００"}'.encode("utf-8"),
        "ascii:astral": b'{"pake_v1": "\\ud83d\\ude00"}',
        "ascii:hex-then-nonascii": ('{"pake_v1": "%sé"}' % st.hex()).encode("utf-8"),
        # --- unhexlify: binascii.Error
        "hex:odd-length": J("000"), "hex:not-hex": J("zz"), "hex:space": J("00 00"), "hex:0x": J("0x00"),
        "hex:nul": b'{"pake_v1": "\\u0000\\u0000"}', "hex:trailing-newline": b'{"pake_v1": "00\\n"}',
        # --- SPAKE2 finish(): side byte
        "el:empty-string": J(""),                      # other_side == b"": assert
        "el:side-A": J("41" + st[1:].hex()),           # OffSides
        "el:side-B": J("42" + st[1:].hex()),           # OffSides
        "el:side-00": J("00" + st[1:].hex()),          # assert
        "el:one-byte-00": J("00"),
        "el:33-zero-bytes": J("00" * 33),
        # --- decodepoint / subgroup checks
        "el:side-only": J("53"),                       # int(b"", 16): ValueError
        "el:zero": J("5301" + "00" * 31),              # ValueError: element was Zero
        "el:order-2": J("53" + order2.hex()), "el:order-4": J("53" + "00" * 32), "el:order-8": J("53" + order8.hex()),
        "el:valid-plus-torsion": J("53" + mixed.hex()),
        "el:all-ff": J("53" + "ff" * 32),
        "el:not-on-curve": J("5302" + "00" * 31),
        "el:truncated-31": J(st[:-1].hex()),
        "el:uppercase-garbage": J("53" + "AB" * 32),
        "el:reflected": "REFLECT",                     # ReflectionThwarted
        # --- accepted by SPAKE2 (a key nobody shares): the `stranger` class
        "ok:stranger": J(st.hex()), "ok:stranger-uppercase": J(st.hex().upper()), "ok:trailing-bytes": J(st.hex() + "0001"),
        "ok:identity-short": J("5301"), "ok:identity-noncanonical": J("53ee" + "ff" * 30 + "7f"),
        "ok:extra-keys": ('{"pake_v1": "%s", "pake_v2": [1, {"x": null}]}' % st.hex()).encode("ascii"),
    }
    return B


def _pake_stage(body, sp=None):
    """which statement of got_pake / bytes_to_dict / hexstr_to_bytes / SPAKE2.finish raises what on this body:
    (statement, exception class name) or ("accepted", "-").  `sp`: the client's own SPAKE2 state (for the reflection check)."""
    import binascii
    import copy
    import json
    try:
        s = body.decode("utf-8")
    except Exception as e:
        return "decode", type(e).__name__
    try:
        d = json.loads(s)
    except Exception as e:
        return "loads", type(e).__name__
    if not isinstance(d, dict):
        return "isdict", "AssertionError"
    try:
        v = d["pake_v1"]
    except Exception as e:
        return "index", type(e).__name__
    if not isinstance(v, str):
        return "isstr", "AssertionError"
    try:
        a = v.encode("ascii")
    except Exception as e:
        return "ascii", type(e).__name__
    try:
        el = binascii.unhexlify(a)
    except Exception as e:
        return "unhexlify", type(e).__name__
    if sp is not None:
        probe = copy.deepcopy(sp)
    else:
        from spake2 import SPAKE2_Symmetric
        probe = SPAKE2_Symmetric(b"probe", idSymmetric=b"probe")
        probe.start()
    try:
        probe.finish(el)
    except Exception as e:
        msg = str(e)
        what = ("zero" if "was Zero" in msg else "wrong-group" if "right group" in msg else "empty" if "invalid literal" in msg
                else "side" if isinstance(e, AssertionError) or "Symmetric" in msg else "")
        return "finish", type(e).__name__ + (":" + what if what else "")
    return "accepted", "-"


pake_stage = getattr(mc, "pake_stage", None) or _pake_stage      # one definition once the shared module has it


class FineObserver(mc.Observer):
    """the shared Observer, which classifies every PAKE of another participant by the exact statement walk (the shared
    one decodes with bytes.fromhex, which tolerates white space that unhexlify does not) and says which statement raises"""

    def pake_kind(self, body):
        sp = getattr(self.c.boss._K._SK, "_sp", None)
        if "pake" in self.c.boss._M._processed or getattr(sp, "_finished", False):
            self.tags.add("pake-raise:duplicate-phase:never-parsed")
            return super().pake_kind(body)
        stage, exc = pake_stage(body, sp)
        k = "good" if stage == "accepted" else "invalid" if stage == "finish" else "nofield"
        self.tags.add("pake-raise:%s:%s" % (stage, exc))
        self.tags.add("pake-class:" + k)
        return k


def replay_fine(ops, welcome_error=None, npeers=None, seed=0):
    """mailbox_corr.replay with the FineObserver"""
    from ..worlds.mailbox import World
    if npeers is None:
        npeers = max([op[1] for op in ops if len(op) > 1 and isinstance(op[1], int)] + [0])
    with World(seed=seed, welcome_error=welcome_error) as W:
        mc.patch_world_internal_names(W)
        W.add_client(delegated=True)
        for _ in range(npeers):
            W.add_client(delegated=True)
        ob = FineObserver(W, 0)
        for op in ops:
            ob.do(op)
        return ob, mc.summarize(W, ob)


PAKE_PLACEMENTS = ("alone", "stashed", "queued", "second", "stashed+version")


def pake_raise_case(name, bodyhex, placement):
    T = "7h1rd51de"
    code = "4-purple-sausages"
    junk = "00" * 60
    end = [["api", 0, "close"], ["pump"], ["finish"]]
    alone = [["api", 0, "set_code", code], ["open", 0], ["pump"]]
    inj = [["inject", 0, T, "pake", bodyhex], ["pump"]]
    stash = [["api", 0, "input_code"], ["api", 0, "choose_nameplate", "4"], ["open", 0], ["pump"]] + inj
    npeers = 0
    if placement == "alone":
        # the code is known, the mailbox open: got_pake runs inside ws_message
        ops = alone + inj + end
    elif placement == "queued":
        # … with two undecryptable messages waiting in Order, which are drained right after (Receive is already scared / has no key)
        ops = alone + [["inject", 0, T, "version", junk], ["inject", 0, T, "0", junk]] + inj + end
    elif placement == "second":
        # after the honest key exchange: a second `pake` is a duplicate phase and must never reach Key
        ops = ([["api", 0, "set_code", code], ["api", 1, "set_code", code], ["open", 0], ["open", 1], ["pump"]] + inj
               + [["inject", 0, T, "1", junk], ["pump"]] + end)
        npeers = 1
    elif placement == "stashed":
        # the nameplate is chosen, the words are not: Key stashes the body; got_pake runs inside the APPLICATION's
        # choose_words() call
        ops = stash + [["api", 0, "choose_words", "purple-sausages"], ["pump"]] + end
    else:
        ops = stash + [["inject", 0, T, "version", junk], ["pump"], ["api", 0, "choose_words", "purple-sausages"], ["pump"]] + end
    return dict(ops=ops, npeers=npeers, profile="pakeraise:%s:%s" % (placement, name))


def pake_raise_corpus(rng, tier):
    """quick: every body alone and stashed, plus one of the other three placements drawn per body; thorough: all five"""
    out = []
    for name, body in sorted(pake_bodies().items()):
        bodyhex = body if body == "REFLECT" else body.hex()
        if tier == "quick":
            pls = ["alone", "stashed", rng.choice(PAKE_PLACEMENTS[2:])]
        else:
            pls = list(PAKE_PLACEMENTS)
        for pl in pls:
            out.append(pake_raise_case(name, bodyhex, pl))
    return out


# ---------------------------------------------------------------------------
# Participant-controlled bytes that are parsed only AFTER decryption, and frame fields the server relays unchecked
#
# `Boss.process_version` does bytes_to_dict(plaintext) on the peer's `version` message.  The plaintext is only reached when
# the body opens under the session key, so only a HOLDER OF OUR CODE can choose it: a wormhole client making legal API
# calls always sends dict_to_bytes(<dict>), which parses.  A participant that has the code but does not run this
# code base is outside the environment fixed in DESIGN §6/§11.7 (its `good` messages are those a wormhole client could
# have produced).  What the unchanged tree does with such plaintexts is recorded in the evidence (tags
# `info:keyholder:<plaintext class>:<verdict>`), NOT judged: see KEYHOLDER_STRICT.

KEYHOLDER_STRICT = False      # True: an undocumented verdict / escaped exception in the key-holder runs (B) is a violation
# Family (A): frame fields a mailbox participant posts with `add` and the real server relays unchecked (body not hex, phase /
# side not ASCII strings).  Any participant can do this without our code, so it IS inside the environment: since the repair of
# RendezvousConnector._response_handle_message (malformed frames are ignored) these runs are judged.
FRAME_STRICT = True

KEYHOLDER_VERSIONS = {
    "honest": None,
    "not-utf8": b"\xff\xfe",
    "not-json": b"hello",
    "empty": b"",
    "list": b"[]",
    "huge-int": b'{"app_versions": ' + b"1" * 5000 + b"}",
    "deep": b'{"app_versions": ' + b"[" * 100000 + b"]" * 100000 + b"}",
    "app-versions-not-a-dict": b'{"app_versions": [1, 2]}',
    "can-dilate-not-a-list": b'{"can-dilate": 5, "app_versions": {}}',
}
def _frame_fields():
    ok = ('{"pake_v1": "%s"}' % _stranger_element().hex()).encode("ascii").hex()      # an element SPAKE2 accepts
    return {
        "body-not-hex": dict(adds=[dict(phase="pake", body="zz")]),
        "body-odd-length": dict(adds=[dict(phase="0", body="000")]),
        "body-not-ascii": dict(adds=[dict(phase="version", body="éé")]),
        "body-int": dict(adds=[dict(phase="pake", body=5)]),
        "body-null": dict(adds=[dict(phase="pake", body=None)]),
        "phase-int": dict(adds=[dict(phase=5, body="00")]),
        "phase-null": dict(adds=[dict(phase=None, body="00")]),
        "phase-not-ascii-alone": dict(adds=[dict(phase="é", body="00")]),
        # … the same, followed by a PAKE that SPAKE2 accepts: a key exists, Order drains its queue into Receive
        "phase-not-ascii-then-stranger-pake": dict(adds=[dict(phase="é", body="00"), dict(phase="pake", body=ok)]),
        "side-not-ascii-unusable-pake": dict(side="é", adds=[dict(phase="pake", body="7b7d")]),
        "side-not-ascii-stranger-pake-then-version": dict(side="é", adds=[dict(phase="pake", body=ok), dict(phase="version", body="00" * 40)]),
        "ascii-control": dict(side="7h1rd51de", adds=[dict(phase="pake", body=ok), dict(phase="version", body="00" * 40)]),
    }


def keyholder_cases():
    out = [dict(kind="keyholder", what="version", name=n) for n in sorted(KEYHOLDER_VERSIONS)]
    out += [dict(kind="keyholder", what="frame", name=n) for n in sorted(_frame_fields())]
    return out


def run_keyholder(case):
    from wormhole._key import derive_phase_key, encrypt_data
    from wormhole.util import bytes_to_dict, dict_to_bytes
    from ..worlds.mailbox import World
    code = "4-purple-sausages"
    with World(seed=7) as W:
        mc.patch_world_internal_names(W)
        a = W.add_client(delegated=True)
        b = W.add_client(delegated=True)
        for op in (["open", 0], ["open", 1], ["api", 0, "set_code", code]):
            W.do(op)
        if case["what"] == "version":
            W.do(["api", 1, "set_code", code])
            plaintext = KEYHOLDER_VERSIONS[case["name"]]
            for _ in range(200):
                moved = False
                for cl in (a, b):
                    if cl.conn is not None and cl.conn.c2s:
                        if cl is b and plaintext is not None:
                            m = bytes_to_dict(cl.conn.c2s[0])
                            if m.get("type") == "add" and m.get("phase") == "version":
                                # the key holder seals a plaintext of its own choosing under the right phase key
                                m["body"] = encrypt_data(derive_phase_key(b.boss._R._key, b.side, "version"), plaintext).hex()
                                cl.conn.c2s[0] = dict_to_bytes(m)
                        W.c2s(cl.index)
                        moved = True
                    if mc.readable(cl):
                        W.s2c(cl.index)
                        moved = True
                if not moved:
                    break
        else:
            # a third side posts an `add` whose fields are not what a wormhole client sends, THROUGH THE REAL SERVER
            # (bind, claim, open, add — the server's handle_add checks only that `phase` and `body` are present)
            spec = _frame_fields()[case["name"]]
            W.settle()
            from ..worlds.mailbox import Conn

            class _X:
                index = 9
            x = Conn(W, _X())
            x.sp.onOpen()
            mbox = [m for m in W.sent[0] if m.get("type") == "open"][0]["mailbox"]
            for fr in ([dict(type="bind", appid="verif.example/app", side=spec.get("side", "7h1rd51de")), dict(type="claim", nameplate="4"),
                        dict(type="open", mailbox=mbox)] + [dict(type="add", id="00", **ad) for ad in spec["adds"]]):
                x.sp.onMessage(dict_to_bytes(fr), False)
            refused = [bytes_to_dict(p) for p in x.s2c if bytes_to_dict(p).get("type") == "error"]
            if refused:
                return Result([], [], [], ["keyholder", "info:frame:%s:server-refused" % case["name"]], True)
        W.settle()
        W.do(["api", 0, "close"])
        W.settle()
        verdicts = [v for n, v in a.events if n == "closed"]
        internal = [e[-1] for e in a.internal]
        v = verdicts[0] if verdicts else "none"
        tag = "info:%s:%s:%s" % ("keyholder-version" if case["what"] == "version" else "frame", case["name"], v)
        viol = []
        if KEYHOLDER_STRICT or case["name"] == "honest" or (FRAME_STRICT and case["what"] == "frame"):
            for nm in internal:
                viol.append(("internal:" + nm.split("(")[0] + ":", f"internal failure {nm} ({case['what']} {case['name']})"))
            if v not in DOC_VERDICTS:
                viol.append(("verdict:" + str(v), f"closed with undocumented verdict {v} ({case['what']} {case['name']})"))
        return Result([], [], viol, ["keyholder", tag] + ["info:escaped:" + nm.split("(")[0] for nm in internal], True,
                      info=dict(verdicts=verdicts, internal=internal))


EXTRA_TARGETS = ["wvsearch"]
evidence_extra = mc.cert_stats


def run_case(case):
    if case.get("kind") == "trace":
        return mc.run_trace_case(case, trace_oracle)
    if case.get("kind") == "real":
        return run_real(case)
    if case.get("kind") == "pair":
        # both API styles (a delegated and a Deferred client), close() repeated after completion
        from . import c18
        r = c18.run_pair(case)
        keep = [(sg, m) for sg, m in r.violations if sg.startswith(("internal", "second-close", "verdict:"))]
        return Result([], [], keep, ["pair"], True, info=r.info)
    if case.get("kind") == "keyholder":
        return run_keyholder(case)
    if case.get("kind") == "long":
        # a LONG session (many peer phases), then a reconnect with the server's full replay of the mailbox, then more
        # traffic (the scripted family of C09, judged here for internal failures only): legal use, conformant server
        from . import c09
        r = c09.run_long(case)
        keep = [(sg, m) for sg, m in r.violations if sg.startswith(("internal", "closed-itself"))]
        return Result([], [], keep, list(r.tags), True)
    if "ops" in case:
        ob, summary = replay_fine(case["ops"], welcome_error=case.get("welcome_error"), npeers=case.get("npeers"),
                                  seed=case.get("seed", 0))
        prof = case.get("profile", "replay")
    else:
        ops, ob, summary = mc.guided(case["seed"], case["n"], case["profile"])
        prof = case["profile"]
    viol = oracle(summary)
    nontrivial = any(l.startswith(("claimed", "msg", "released", "closed", "allocated")) for l in ob.lines)
    tags = ["profile:" + prof] + ["verdict:" + str(v) for n, v in summary["events"] if n == "closed"]
    tags += ["outcome:" + e.split(" |")[0].split("(")[0] for e in ob.expect if not e.startswith("ok")]
    tags += list(getattr(ob, "tags", ()))          # pake-raise:<statement>:<exception class> (FineObserver)
    if prof.startswith("pakeraise:"):
        tags[0] = "profile:" + ":".join(prof.split(":")[:2])
        tags.append("pakeraise-body:" + prof.split(":", 2)[2])
    return Result(ob.lines, ob.expect, viol, sorted(set(tags)), nontrivial)


def explicit(case):
    if "ops" in case:
        return case
    ops, ob, summary = mc.guided(case["seed"], case["n"], case["profile"])
    npeers = 0 if case["profile"] in ("lonely", "fail-initial", "welcome-error", "third-alone") else (2 if case["profile"] == "crowded" else 1)
    return dict(ops=ops, seed=case["seed"], npeers=npeers, profile=case["profile"],
                welcome_error="please upgrade" if case["profile"] == "welcome-error" else None)


def shrink(case):
    if case.get("kind") == "trace":
        yield from mc.trace_shrink(case)
        return
    if case.get("kind") in ("pair", "keyholder"):
        return          # generated from a seed / scripted; replayed as it is
    if case.get("kind") == "real":
        if case["steps"] > 5:
            yield dict(case, steps=case["steps"] // 2)
            yield dict(case, steps=case["steps"] - 1)
        return
    case = explicit(case)
    ops = case["ops"]
    n = len(ops)
    # drop suffixes first, then single ops
    for cut in (n // 2, n * 3 // 4, n - 1):
        if 0 < cut < n:
            c = dict(case)
            c["ops"] = ops[:cut]
            yield c
    for i in range(n - 1, -1, -1):
        c = dict(case)
        c["ops"] = ops[:i] + ops[i + 1:]
        yield c


def search(rng, seconds, seeds):
    t0 = time.time()
    yield from mc.model_guided(trace_oracle)
    for c in pake_raise_corpus(rng, "thorough"):
        yield c, run_case(c)
    for c in seeds:
        yield c, run_case(c)
    while time.time() - t0 < seconds:
        c = dict(seed=rng.randrange(10**9), n=rng.choice([60, 120, 200]), profile=rng.choice(mc.PROFILES))
        yield c, run_case(c)
