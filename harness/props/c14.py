"""C14 — no internal failure on any legal use against a conformant server.
Correspondence of the composed control model (`WV.Client` + data layer) with the real client in
the mailbox World, and the property's oracle on the real run."""
import time

from ..core import Result
from .. import mailbox_corr as mc

ID = "C14"
MODEL = "CLIENT"
PROP_MODULES = ["WV.Props.ClientSkel", "WV.Props.C14"]
NATIVE_DECIDE_MODULES = ["WV.Proofs.ClientCert"]   # the one finite certificate, disclosed (DESIGN §4)
TRUSTED = ["native_decide on the finite certificate of the closed system (WV.Proofs.ClientCert.cert: ~2.8e4 states x 34 events): adds Lean.ofReduceBool/Lean.trustCompiler, i.e. the Lean compiler, to these theorems",
           "the environment model WV.ClientEnv.enabled (what a conformant server/peer/application may do); validated by trace inclusion of real-server runs",
           "SPAKE2 / SecretBox / HKDF (the model sees only 'decrypts' / 'does not decrypt', classified by the harness with the real keys)",
           "ClientService (replaced by a fake that, like the real one, completes stopService() at once when there is no connection and after the connection is closed otherwise)",
           "autobahn WebSocket framing; the mailbox server is the installed wormhole_mailbox_server (real protocol objects, in-memory DB)",
           "Dilator stub: dilate() is not called in this world (C17 covers dilation shutdown)"]
RULE = ("guided random schedules of the mailbox World (profiles: set/allocate/input code entry, matching or mismatching "
        "peer, lonely, welcome error, crowded nameplate, initial connection failure, late peer, frequent drops, a third participant whose messages the mailbox relays; message "
        "duplication and reordering; close() at any time); every step of client 0 is compared with the Lean model "
        "(outcome, 13 machine states, commands, app events); non-trivial = the run got beyond code entry and exchanged "
        "at least one server frame; distinct = distinct canonical traces")


def cases(rng, tier):
    n = 110 if tier == "quick" else 1500
    out = []
    # corpus: one short run of every profile
    for i, p in enumerate(mc.PROFILES):
        out.append(dict(seed=1000 + i, n=80, profile=p))
    # hostile participants: several fixed walks (a third side posting unusable PAKE bodies and undecryptable bytes, with
    # and without an honest peer)
    out.extend(mc.hostile_corpus())
    out.extend(mc.connection_corpus())
    for i in range(24 if tier == "quick" else 120):
        out.append(dict(seed=2000 + i, n=100, profile="third-alone" if i % 2 else "third"))
    for _ in range(n):
        out.append(dict(seed=rng.randrange(10**9), n=rng.choice([30, 60, 120, 200]), profile=rng.choice(mc.PROFILES)))
    for _ in range(20 if tier == "quick" else 400):
        out.append(dict(kind="pair", seed=rng.randrange(10**9), fifo=rng.random() < 0.5, match=rng.random() < 0.8,
                        nmsg=rng.randrange(1, 4), drops=rng.random() < 0.3))
    return out


def oracle(summary):
    """C14 on the real run: no exception escaped any entry point, API calls raised only documented
    errors, and the verdict (if closed) is 'happy' or a documented WormholeError."""
    viol = []
    for ent in summary["internal"]:
        nm = ent[2] if len(ent) > 2 else ent[0]
        viol.append(("internal:" + nm.split("(")[0] + ":" + (nm.split("(")[1].rstrip(")") if "(" in nm else ""), f"internal failure {nm} ({ent[1]})"))
    for name, val in summary["events"]:
        if name == "closed" and val not in ("happy", "LonelyError", "WrongPasswordError", "ServerError", "WelcomeError",
                                            "ServerConnectionError"):
            viol.append(("verdict:" + str(val), f"closed with undocumented verdict {val}"))
    return viol


def trace_oracle(summary):
    return oracle(summary)


EXTRA_TARGETS = ["wvsearch"]
evidence_extra = mc.cert_stats


def run_case(case):
    if case.get("kind") == "trace":
        return mc.run_trace_case(case, trace_oracle)
    if case.get("kind") == "pair":
        # both API styles (a delegated and a Deferred client), close() repeated after completion
        from . import c18
        r = c18.run_pair(case)
        keep = [(sg, m) for sg, m in r.violations if sg.startswith(("internal", "second-close", "verdict:"))]
        return Result([], [], keep, ["pair"], True, info=r.info)
    if "ops" in case:
        ob, summary = mc.replay(case["ops"], welcome_error=case.get("welcome_error"), npeers=case.get("npeers"),
                                seed=case.get("seed", 0))
        prof = case.get("profile", "replay")
    else:
        ops, ob, summary = mc.guided(case["seed"], case["n"], case["profile"])
        prof = case["profile"]
    viol = oracle(summary)
    nontrivial = any(l.startswith(("claimed", "msg", "released", "closed", "allocated")) for l in ob.lines)
    tags = ["profile:" + prof] + ["verdict:" + str(v) for n, v in summary["events"] if n == "closed"]
    tags += ["outcome:" + e.split(" |")[0].split("(")[0] for e in ob.expect if not e.startswith("ok")]
    return Result(ob.lines, ob.expect, viol, sorted(set(tags)), nontrivial)


def explicit(case):
    if "ops" in case:
        return case
    ops, ob, summary = mc.guided(case["seed"], case["n"], case["profile"])
    npeers = 0 if case["profile"] in ("lonely", "fail-initial", "welcome-error", "third-alone") else (2 if case["profile"] == "crowded" else 1)
    return dict(ops=ops, seed=case["seed"], npeers=npeers, profile=case["profile"],
                welcome_error="please upgrade" if case["profile"] == "welcome-error" else None)


def shrink(case):
    if case.get("kind") == "trace":
        yield from mc.trace_shrink(case)
        return
    if case.get("kind") == "pair":
        return          # generated from a seed; replayed as it is
    case = explicit(case)
    ops = case["ops"]
    n = len(ops)
    # drop suffixes first, then single ops
    for cut in (n // 2, n * 3 // 4, n - 1):
        if 0 < cut < n:
            c = dict(case)
            c["ops"] = ops[:cut]
            yield c
    for i in range(n - 1, -1, -1):
        c = dict(case)
        c["ops"] = ops[:i] + ops[i + 1:]
        yield c


def search(rng, seconds, seeds):
    t0 = time.time()
    yield from mc.model_guided(trace_oracle)
    for c in seeds:
        yield c, run_case(c)
    while time.time() - t0 < seconds:
        c = dict(seed=rng.randrange(10**9), n=rng.choice([60, 120, 200]), profile=rng.choice(mc.PROFILES))
        yield c, run_case(c)
