"""C14 — no internal failure on any legal use against a conformant server.
Correspondence of the composed control model (`WV.Client` + data layer) with the real client in
the mailbox World, and the property's oracle on the real run."""
import time

from ..core import Result
from .. import mailbox_corr as mc

ID = "C14"
MODEL = "CLIENT"
PROP_MODULES = ["WV.Props.ClientSkel", "WV.Props.C14"]
NATIVE_DECIDE_MODULES = ["WV.Proofs.ClientCert"]   # the one finite certificate, disclosed (DESIGN §4)
TRUSTED = ["native_decide on the finite certificate of the closed system (WV.Proofs.ClientCert.cert: ~2.8e4 states x 34 events): adds Lean.ofReduceBool/Lean.trustCompiler, i.e. the Lean compiler, to these theorems",
           "the environment model WV.ClientEnv.enabled (what a conformant server/peer/application may do); validated by trace inclusion of real-server runs",
           "SPAKE2 / SecretBox / HKDF (the model sees only 'decrypts' / 'does not decrypt', classified by the harness with the real keys)",
           "in the model-compared world ClientService is replaced by a fake that, like the real one, completes stopService() at once when there is no connection and after the connection is closed otherwise, and autobahn's protocol by a stand-in that raises what autobahn raises (Disconnected in the closing window, PayloadExceededError over the factory's limit); the `real` cases run the real ClientService and the real autobahn protocols (oracle only, no model comparison)",
           "the mailbox server is the installed wormhole_mailbox_server (real protocol objects, in-memory DB)",
           "Dilator stub: dilate() is not called in this world (C17 covers dilation shutdown)"]
RULE = ("guided random schedules of the mailbox World (profiles: set/allocate/input code entry, matching or mismatching "
        "peer, lonely, welcome error, crowded nameplate, initial connection failure, late peer, frequent drops, a third participant whose messages the mailbox relays; message "
        "duplication and reordering; close() at any time); every step of client 0 is compared with the Lean model "
        "(outcome, 13 machine states, commands, app events); non-trivial = the run got beyond code entry and exchanged "
        "at least one server frame; plus oracle-only runs of two clients on their REAL connection stack (real ClientService, "
        "real autobahn handshake with the real server protocol, messages up to 700 kB, refused/unanswered reconnection "
        "attempts); distinct = distinct canonical traces")


def cases(rng, tier):
    n = 110 if tier == "quick" else 1500
    out = []
    # corpus: one short run of every profile
    for i, p in enumerate(mc.PROFILES):
        out.append(dict(seed=1000 + i, n=80, profile=p))
    # hostile participants: several fixed walks (a third side posting unusable PAKE bodies and undecryptable bytes, with
    # and without an honest peer)
    out.extend(mc.hostile_corpus())
    out.extend(mc.connection_corpus())
    for i in range(24 if tier == "quick" else 120):
        out.append(dict(seed=2000 + i, n=100, profile="third-alone" if i % 2 else "third"))
    for _ in range(n):
        out.append(dict(seed=rng.randrange(10**9), n=rng.choice([30, 60, 120, 200]), profile=rng.choice(mc.PROFILES)))
    for _ in range(20 if tier == "quick" else 400):
        out.append(dict(kind="pair", seed=rng.randrange(10**9), fifo=rng.random() < 0.5, match=rng.random() < 0.8,
                        nmsg=rng.randrange(1, 4), drops=rng.random() < 0.3))
    out.extend(real_cases(rng, tier))
    return out


def real_cases(rng, tier):
    return [dict(kind="real", seed=rng.randrange(10**9), steps=rng.choice([20, 50, 100]), pclose=rng.choice([0.0, 0.05, 0.1]))
            for _ in range(30 if tier == "quick" else 600)]


def oracle(summary):
    """C14 on the real run: no exception escaped any entry point, API calls raised only documented
    errors, and the verdict (if closed) is 'happy' or a documented WormholeError."""
    viol = []
    for ent in summary["internal"]:
        nm = ent[2] if len(ent) > 2 else ent[0]
        viol.append(("internal:" + nm.split("(")[0] + ":" + (nm.split("(")[1].rstrip(")") if "(" in nm else ""), f"internal failure {nm} ({ent[1]})"))
    for name, val in summary["events"]:
        if name == "closed" and val not in ("happy", "LonelyError", "WrongPasswordError", "ServerError", "WelcomeError",
                                            "ServerConnectionError"):
            viol.append(("verdict:" + str(val), f"closed with undocumented verdict {val}"))
    return viol


def trace_oracle(summary):
    return oracle(summary)


DOC_VERDICTS = ("happy", "LonelyError", "WrongPasswordError", "ServerError", "WelcomeError", "ServerConnectionError")
DOC_API_ERRORS = ("OnlyOneCodeError", "KeyFormatError", "NoKeyError", "WormholeClosed", "WrongPasswordError", "LonelyError",
                  "ServerError", "WelcomeError", "ServerConnectionError")


def run_real(case):
    """legal use on the REAL connection stack (worlds/realstack.py: real ClientService, real autobahn handshake with the
    real server protocol over in-memory pipes): code entry, messages of any size, connection losses, refused and
    unanswered reconnection attempts, close() at any time; then the server is reachable and time passes.  Nothing may
    escape an entry point or a timer or be logged as an error, API calls raise only documented errors, and each
    wormhole closes exactly once with 'happy' or a documented WormholeError."""
    import random
    from ..worlds.realstack import RealWorld
    rng = random.Random(case["seed"])
    viol = []
    with RealWorld(seed=case["seed"]) as W:
        cl = [W.add_client(), W.add_client()]
        code = "9-drumbeat-uproot"
        closed = [False, False]
        coded = [False, False]
        sizes = case.get("sizes", [1, 100, 700000])
        for step in range(case["steps"]):
            ci = rng.randrange(2)
            c = cl[ci]
            r = rng.random()
            if closed[ci]:
                W.advance(rng.choice([0.05, 1.0]))
            elif r < 0.2 and not coded[ci]:
                W.api(c, "set_code", code if rng.random() < case.get("pmatch", 0.85) else "9-wrong-word")
                coded[ci] = True
            elif r < 0.4:
                W.api(c, "send_message", bytes(rng.choice(sizes)))
            elif r < 0.5 and c.connected:
                c.ep.mode = rng.choice(["up", "refuse", "mute"])
                c.link.drop()
            elif r < 0.6:
                c.ep.mode = rng.choice(["up", "up", "refuse", "mute"])
            elif r < 0.6 + case.get("pclose", 0.05):
                W.api(c, "close")
                closed[ci] = True
            elif r < 0.85:
                W.advance(rng.choice([0.05, 0.3, 1.0, 7.0, 65.0]))
            else:
                W.settle()
        for c in cl:
            c.ep.mode = "up"
        W.advance(100.0, step=1.0)
        for ci in (0, 1):
            if not closed[ci]:
                W.api(cl[ci], "close")
        W.advance(200.0, step=1.0)
        verdicts = []
        for ci, c in enumerate(cl):
            vs = [v for n, v in c.events if n == "closed"]
            verdicts.append(vs[0] if vs else None)
            if len(vs) != 1:
                viol.append(("real:closed-%d-times" % len(vs), f"client {ci}: close() called, the server reachable for minutes: closed notified {len(vs)} times ({vs})"))
            elif vs[0] not in DOC_VERDICTS:
                viol.append(("verdict:" + str(vs[0]), f"client {ci}: closed with undocumented verdict {vs[0]}"))
            if vs and c.events[-1][0] != "closed":
                viol.append(("real:event-after-closed", f"client {ci}: events after closed: {c.events[c.events.index(('closed', vs[0])) + 1:]}"))
            for ent in c.internal:
                viol.append(("internal:" + ent[0], f"client {ci}: {ent} escaped a protocol entry point"))
            for ent in c.api_errors:
                if ent[1] not in DOC_API_ERRORS:
                    viol.append(("api-raises:" + ent[1], f"client {ci}: {ent[0]}() raised undocumented {ent[1]}: {ent[2]}"))
        for l in W.logged:
            viol.append(("logged-error:" + l.split("(")[0].split(":")[0][:40], f"an error was logged: {l}"))
        trace = [[n for n, v in c.events] for c in cl]
        return Result([], [], viol, ["real"] + ["real:verdict:" + str(v) for v in verdicts], True, info=dict(trace=trace))


EXTRA_TARGETS = ["wvsearch"]
evidence_extra = mc.cert_stats


def run_case(case):
    if case.get("kind") == "trace":
        return mc.run_trace_case(case, trace_oracle)
    if case.get("kind") == "real":
        return run_real(case)
    if case.get("kind") == "pair":
        # both API styles (a delegated and a Deferred client), close() repeated after completion
        from . import c18
        r = c18.run_pair(case)
        keep = [(sg, m) for sg, m in r.violations if sg.startswith(("internal", "second-close", "verdict:"))]
        return Result([], [], keep, ["pair"], True, info=r.info)
    if "ops" in case:
        ob, summary = mc.replay(case["ops"], welcome_error=case.get("welcome_error"), npeers=case.get("npeers"),
                                seed=case.get("seed", 0))
        prof = case.get("profile", "replay")
    else:
        ops, ob, summary = mc.guided(case["seed"], case["n"], case["profile"])
        prof = case["profile"]
    viol = oracle(summary)
    nontrivial = any(l.startswith(("claimed", "msg", "released", "closed", "allocated")) for l in ob.lines)
    tags = ["profile:" + prof] + ["verdict:" + str(v) for n, v in summary["events"] if n == "closed"]
    tags += ["outcome:" + e.split(" |")[0].split("(")[0] for e in ob.expect if not e.startswith("ok")]
    return Result(ob.lines, ob.expect, viol, sorted(set(tags)), nontrivial)


def explicit(case):
    if "ops" in case:
        return case
    ops, ob, summary = mc.guided(case["seed"], case["n"], case["profile"])
    npeers = 0 if case["profile"] in ("lonely", "fail-initial", "welcome-error", "third-alone") else (2 if case["profile"] == "crowded" else 1)
    return dict(ops=ops, seed=case["seed"], npeers=npeers, profile=case["profile"],
                welcome_error="please upgrade" if case["profile"] == "welcome-error" else None)


def shrink(case):
    if case.get("kind") == "trace":
        yield from mc.trace_shrink(case)
        return
    if case.get("kind") == "pair":
        return          # generated from a seed; replayed as it is
    if case.get("kind") == "real":
        if case["steps"] > 5:
            yield dict(case, steps=case["steps"] // 2)
            yield dict(case, steps=case["steps"] - 1)
        return
    case = explicit(case)
    ops = case["ops"]
    n = len(ops)
    # drop suffixes first, then single ops
    for cut in (n // 2, n * 3 // 4, n - 1):
        if 0 < cut < n:
            c = dict(case)
            c["ops"] = ops[:cut]
            yield c
    for i in range(n - 1, -1, -1):
        c = dict(case)
        c["ops"] = ops[:i] + ops[i + 1:]
        yield c


def search(rng, seconds, seeds):
    t0 = time.time()
    yield from mc.model_guided(trace_oracle)
    for c in seeds:
        yield c, run_case(c)
    while time.time() - t0 < seconds:
        c = dict(seed=rng.randrange(10**9), n=rng.choice([60, 120, 200]), profile=rng.choice(mc.PROFILES))
        yield c, run_case(c)
