"""C02 — the mailbox server cannot forge, alter, re-label, replay or reflect messages.

Two real `wormhole.create()` clients (delegated API) against the real mailbox-server protocol objects
(harness/worlds/mailbox.py).  The case is a script; the network is the world's two queues per
connection, which the script drains frame by frame and tampers with.  Every step that touches the
modelled receive path of a client becomes one line for the Lean model (`WV.C02.driver`); `message`
frames travel as abstract descriptors (who sealed what for which (side, phase) / not a sealing /
which PAKE element), classified HERE with an independent re-implementation of the key schedule
(hashlib/hmac + nacl), never with the code under test.  The real client's reaction (machine states,
dedup set, queues, delivered events, exception) is compared with the model's line by line.

The oracle is the property on the real run: everything a client hands to the application (messages,
versions, dilation payloads) was sealed under the client's session key for exactly that class of
phase by another side, each version at most once, messages in phase order; a client that accepted a
manipulated frame does not end `happy`; an honest run delivers everything.
"""
import hashlib
import hmac
import json
from binascii import unhexlify

from nacl.exceptions import CryptoError
from nacl.secret import SecretBox
from spake2 import SPAKE2_Symmetric

from wormhole.errors import _UnknownPhaseError
from wormhole.util import bytes_to_dict, dict_to_bytes

from .. import LOGGED
from ..core import Result
from ..util import automat_state
from ..worlds.mailbox import World, verdict_name

ID = "C02"
PROP_MODULES = ["WV.Props.C02"]
# the observer layer through which the application sees the plaintexts (observer.py, eventual.py, the façades) is tied to
# WV.Observer by the translator (tools/extract.py::extract_pyir_obs -> WV/Gen/PyIRObs.lean; agents/deepObs_integration.md):
# part of the check as soon as the module is installed
import os as _os
if _os.path.exists(_os.path.join(_os.path.dirname(_os.path.abspath(__file__)), "..", "..", "lean", "WV", "Props",
                                 "PyIRObs_C18.lean")):
    PROP_MODULES.append("WV.Props.PyIRObs_C18")
TRUSTED = ["SPAKE2, HKDF-SHA256, SHA-256, NaCl SecretBox: ideal interface (WV.C02.Crypto.Ideal) in Lean, real primitives in the harness",
           "JSON/hex codec of message bodies (abstract decode function in the model)",
           "Nameplate/Terminator/Code machines: only the calls the receive path makes into them (N.release assumed accepted, T.close → M.close)",
           "harness classification of frame bodies: independent key schedule re-implementation (hmac/hashlib/nacl)"]
RULE = ("honest two-party runs (0..6 application messages each way, set_code or input_code with the peer's PAKE before the words) "
        "with 0..3 tamper operations (flip/truncate/extend/random body, re-label phase, rename side, duplicate, swap labels, "
        "reflect own message under another side, cross-phase replay, fabricated/reflected/stranger PAKE, key-holder and "
        "foreign-key sealings under arbitrary labels) at scheduled positions before/after key agreement; non-trivial = a "
        "tamper op hit a frame or a non-default dispatch branch ran; distinct = distinct canonical traces")

CODE = "4-purple-sausages"

EXC_KIND = {"AssertionError": "AssertionError", "NoTransition": "NoTransition", "UnicodeEncodeError": "UnicodeEncodeError",
            "UnicodeDecodeError": "DecodeError", "JSONDecodeError": "DecodeError", "Error": "DecodeError",
            "ReflectionThwarted": "PakeError", "NotOnCurve": "PakeError", "OffSides": "PakeError", "ValueError": "PakeError", "SPAKEError": "PakeError"}


# ---------------------------------------------------------------------------
# independent reference key schedule (RFC 5869 with SHA-256, empty salt)

def ref_hkdf(key, info, length=32):
    prk = hmac.new(b"\x00" * 32, key, hashlib.sha256).digest()
    out, t, i = b"", b"", 1
    while len(out) < length:
        t = hmac.new(prk, t + info + bytes([i]), hashlib.sha256).digest()
        out += t
        i += 1
    return out[:length]


def ref_phase_key(key, side, phase):
    return ref_hkdf(key, b"wormhole:phase:" + hashlib.sha256(side.encode("ascii")).digest() +
                    hashlib.sha256(phase.encode("ascii")).digest())


def ref_open(key, side, phase, body):
    try:
        return SecretBox(ref_phase_key(key, side, phase)).decrypt(body)
    except (CryptoError, UnicodeEncodeError, ValueError, TypeError):
        return None


def ref_seal(key, side, phase, pt, nonce):
    return bytes(SecretBox(ref_phase_key(key, side, phase)).encrypt(pt, nonce))


def hx(b):
    return b.hex() if b else "-"


def hs(s):
    return hx(s.encode("utf8"))


def respell(label, form):
    """another spelling of a label: Unicode compatibility forms that NFKC folds back to the ASCII label (full-width,
    mathematical, superscript, roman-numeral letters), and for contrast spellings nothing folds back (case, zero-width
    joiner, soft hyphen, NFD tail)"""
    if form in (None, ""):
        return label
    if form == "fw":          # every printable ASCII character full-width
        return "".join(chr(ord(ch) + 0xFEE0) if 0x21 <= ord(ch) <= 0x7E else ch for ch in label)
    if form == "fw1":         # only the first one
        return respell(label[:1], "fw") + label[1:]
    if form == "fwlast":
        return label[:-1] + respell(label[-1:], "fw")
    if form == "math":        # mathematical bold digits / letters
        def m(ch):
            if ch.isdigit():
                return chr(0x1D7CE + int(ch))
            if "a" <= ch <= "z":
                return chr(0x1D41A + ord(ch) - 97)
            return ch
        return "".join(m(ch) for ch in label)
    if form == "sup":         # superscript / subscript digits where they exist
        t = {"0": "\u2070", "1": "\u00b9", "2": "\u00b2", "3": "\u00b3", "4": "\u2074", "5": "\u2075", "6": "\u2086",
             "7": "\u2077", "8": "\u2088", "9": "\u2079"}
        return "".join(t.get(ch, ch) for ch in label)
    if form == "roman":       # U+2170.. small roman numerals: i, v, x, l, c, d, m
        t = {"i": "\u2170", "v": "\u2174", "x": "\u2179", "l": "\u217c", "c": "\u217d", "d": "\u217e", "m": "\u217f"}
        out, done = [], False
        for ch in label:
            if not done and ch in t:
                out.append(t[ch])
                done = True
            else:
                out.append(ch)
        return "".join(out)
    if form == "case":
        return label.upper() if label.upper() != label else label.lower()
    if form == "zwj":
        return label[:1] + "\u200d" + label[1:]
    if form == "shy":
        return label[:1] + "\u00ad" + label[1:]
    if form == "nfd":         # an accent that NFC composes: same text as label+"é" for NFC and NFKC alike
        return label + "e\u0301"
    raise ValueError(form)


FORMS_K = ["fw", "fw", "fw1", "fwlast", "math", "sup", "roman"]     # NFKC-equivalent to the ASCII label
FORMS_C = ["case", "zwj", "shy", "nfd"]                                # not equivalent (contrast)


def py_classify(phase):
    """reference reading of Boss.got_message's dispatch (ASCII phases only reach it)"""
    import re
    if phase == "version":
        return ("version",)
    m = re.search(r"^dilate-([0-9]+)$", phase)
    if m:
        return ("dilate", int(m.group(1)))
    if re.search(r"^[0-9]+$", phase):
        return ("num", int(phase))
    return ("unknown",)


# ---------------------------------------------------------------------------
# the runner

class Runner:
    def __init__(self, case):
        self.case = case
        self.lines = []
        self.expect = []
        self.tags = set()
        self.viol = []
        self.registry = {}      # body bytes -> dict(key=bytes, tag="S j"|"X n", side, phase, pt)
        self.pake_elem = {}     # client index -> its honest SPAKE2 element
        self.strangers = []     # distinct well-formed foreign elements
        self.foreign_keys = []
        self.accepted_bad = {0: [], 1: []}   # manipulated frames a client accepted (phase newly processed)
        self.shadow_q = {0: [], 1: []}       # accepted non-PAKE frames waiting in Order's queue: (side, phase, desc, legit)
        self.processed_bad = {0: [], 1: []}  # manipulated frames that were handed on to Receive
        self.stashed_bad = {0: None, 1: None}   # an unusable PAKE message waiting in Key for the code
        self.bad_pake = {0: [], 1: []}          # unusable PAKE messages _SortedKey consumed: (desc, boss state before)
        self.hold = {0: False, 1: False}     # the server withholds the peer's messages from this client …
        self.held = {0: [], 1: []}           # … these
        self.tampered = False
        self.dropped = False
        self.exc_override = {}
        self.nonce_ctr = 0

    # -- helpers on the real clients
    def key_of(self, ci):
        for n, v in self.W.clients[ci].events:
            if n == "key":
                return bytes.fromhex(v)
        # a client that already closed with an error computes the key without telling the application
        return self.W.clients[ci].boss._R._key

    def processed(self, ci):
        """Mailbox._processed as a set of strings; None when the attribute is missing or not a collection of str"""
        p = getattr(self.W.clients[ci].boss._M, "_processed", None)
        try:
            p = set(p)
        except TypeError:
            return None
        return p if all(isinstance(x, str) for x in p) else None

    def state_line(self, ci, exc, new_events):
        """the canonical observation of client ci; whatever cannot be observed becomes an explicit marker, so a
        changed implementation shows up as a disagreement (and goes to the oracle), never as a harness crash"""
        c = self.W.clients[ci]
        b = c.boss
        ex = self.kind(exc) if exc else "-"

        def obs(f):
            try:
                return f()
            except Exception as e:  # noqa
                return "<unobservable:%s>" % type(e).__name__
        st = obs(c.states)
        if isinstance(st, str):
            st = {k: st for k in ("M", "O", "K", "SK", "R", "B")}
        pr = self.processed(ci)
        proc = "<unobservable>" if pr is None else ",".join(sorted(hs(p) for p in pr))
        pend = obs(lambda: ",".join(hs(p) for p in b._M._pending_outbound.keys()))
        oq = obs(lambda: len(b._O._queue))
        nxt = obs(lambda: f"{b._next_rx_phase}/{b._next_rx_dilate_seqnum}")
        return (f"{ex} M={st['M']} O={st['O']} K={st['K']} SK={st['SK']} R={st['R']} B={st['B']} proc={proc} pend={pend} "
                f"oq={oq} next={nxt} | {' '.join(new_events)}")

    def snapshot(self, ci):
        c = self.W.clients[ci]
        # the numbers of the next application message / dilation payload are what was handed over so far (observed at the
        # application and at the Dilator, not read from Boss' cursors, which a changed implementation may not have)
        ndil = len(c.boss._D._pending_inbound_dilate_messages)
        return (len(c.events), ndil, len(LOGGED), sum(1 for n, _ in c.events if n == "message"), ndil)

    def version_token(self, ci, app_versions_json):
        """the sealed version plaintext a `versions` event corresponds to (by its app_versions)"""
        want = json.loads(app_versions_json)
        for body, r in self.registry.items():
            if r["phase"] == "version":
                try:
                    d = json.loads(r["pt"].decode("utf8"))
                except Exception:
                    continue
                if isinstance(d, dict) and d.get("app_versions", {}) == want:
                    return "versions:" + hx(r["pt"])
        return "versions:?" + hs(app_versions_json)

    def new_events(self, ci, snap):
        c = self.W.clients[ci]
        n_ev, n_dil, n_log, nxt, nxtd = snap
        out = []
        k = nxt
        for name, val in c.events[n_ev:]:
            if name == "welcome":
                continue
            if name == "code":
                out.append("code")
            elif name == "key":
                out.append("key")
            elif name == "verifier":
                out.append("verifier")
            elif name == "versions":
                out.append(self.version_token(ci, val))
            elif name == "message":
                out.append(f"message:{k}:{hx(bytes.fromhex(val))}")
                k += 1
            elif name == "closed":
                v = val
                if v in ("happy", "LonelyError", "WrongPasswordError"):
                    out.append("closed:" + v)
                else:
                    out.append("closed:error:" + self.kind(v))
            else:
                out.append(name)
        dil = list(c.boss._D._pending_inbound_dilate_messages)[n_dil:]
        for i, m in enumerate(dil):
            out.append(f"dilate:{nxtd + i}:{hx(m)}")
        for ev in LOGGED[n_log:]:
            f = ev.get("log_failure") or ev.get("failure")
            if f is not None and isinstance(f.value, _UnknownPhaseError):
                msg = str(f.value)
                ph = msg[msg.index("'") + 1:msg.rindex("'")]
                out.append("unknown-phase:" + hs(ph))
                self.tags.add("dispatch:unknown")
        return out

    def line(self, ci, text, exc, snap):
        evs = self.new_events(ci, snap)
        self.lines.append(f"{ci} {text}")
        self.expect.append(self.state_line(ci, exc, evs))
        return evs

    # -- classification of a `message` frame addressed to client ci
    def wellformed_elem(self, elem):
        """does a fresh, unrelated SPAKE2 instance accept the element?  -> True, or the exception it raises"""
        try:
            s = SPAKE2_Symmetric(b"x", idSymmetric=b"y")
            s.start()
            s.finish(elem)
            return True
        except Exception as e:  # noqa
            return e

    def guarded_ws_message(self, c, payload):
        """like World._guard, but an exception raised from inside the spake2 package is 'spake2 refused the element'
        (PakeError) for this step, whatever its class is called (spake2 uses ValueError, AssertionError, SPAKEError…)"""
        import traceback
        try:
            c.rc.ws_message(payload)
            return None
        except Exception as e:  # noqa
            name = type(e).__name__
            if any("/spake2/" in fs.filename for fs in traceback.extract_tb(e.__traceback__)):
                self.exc_override = {name: "PakeError"}
            c.internal.append((name, str(e)[:200]))
            return name

    def consumed_bad_pake(self, ci, desc, b_before, exc):
        """_SortedKey was given an unusable PAKE message: that is a wrong code (scared), never an internal failure"""
        self.bad_pake[ci].append((desc, b_before))
        self.tags.add("bad-pake-consumed:" + desc.split(" ")[1])
        if exc is not None:
            self.viol.append(("bad-pake-escapes:" + exc,
                              f"client {ci}: PAKE message {desc!r} made {exc} escape from ws_message/set_code instead of "
                              f"closing with WrongPasswordError"))

    # -- Deferred-mode clients: Boss -> _DeferredWormhole calls are logged like delegate callbacks (that is what the
    #    model is compared with); what the get_*() Deferreds fire with is recorded separately, for the oracle
    def setup_deferred(self, c):
        c.deferred_api = True
        c.dres = []          # (what, request number, "ok"/"err", value)
        c.nreq = 0
        c.event = lambda name, value=None: c.dres.append(("auto:" + name.rstrip("!"), -1, "err" if name.endswith("!") else "ok", value))
        w = c.w
        fmt = {"got_welcome": ("welcome", lambda v: None), "got_code": ("code", lambda v: v),
               "got_key": ("key", lambda v: v.hex()), "got_verifier": ("verifier", lambda v: v.hex()),
               "got_versions": ("versions", lambda v: json.dumps(v, sort_keys=True)),
               "received": ("message", lambda v: v.hex()), "closed": ("closed", verdict_name)}
        for meth, (name, f) in fmt.items():
            orig = getattr(w, meth)

            def wrapper(v, _orig=orig, _name=name, _f=f):
                c.events.append((_name, _f(v)))
                return _orig(v)
            setattr(w, meth, wrapper)

    def request(self, ci, what, chain=0):
        """the application calls get_message()/get_versions()/get_verifier(); with chain > 0 the callback issues the
        next request from inside itself"""
        c = self.W.clients[ci]
        if not getattr(c, "deferred_api", False):
            return
        d = {"message": c.w.get_message, "versions": c.w.get_versions, "verifier": c.w.get_verifier}[what]()
        no = c.nreq
        c.nreq += 1
        self.tags.add("get:" + what + (":chained" if chain else ""))

        def cb(res):
            from twisted.python import failure as _f
            if isinstance(res, _f.Failure):
                c.dres.append((what, no, "err", verdict_name(res)))
            else:
                v = res.hex() if isinstance(res, bytes) else json.dumps(res, sort_keys=True)
                c.dres.append((what, no, "ok", v))
                if chain > 0:
                    self.request(ci, what, chain - 1)
        d.addBoth(cb)

    def machine(self, obj):
        try:
            return automat_state(obj)
        except Exception as e:  # noqa
            return "<unobservable:%s>" % type(e).__name__

    def kind(self, name):
        return self.exc_override.get(name) or EXC_KIND.get(name, name)

    def describe(self, ci, side, phase, body):
        """-> (descriptor tokens, legit?)"""
        c = self.W.clients[ci]
        if phase == "pake":
            try:
                d = json.loads(body.decode("utf8"))
                if not isinstance(d, dict):
                    raise ValueError("not a dict")
            except Exception:
                return "P raise", False
            if "pake_v1" not in d:
                return "P missing", False
            try:
                elem = unhexlify(d["pake_v1"].encode("ascii"))
            except Exception:
                return "P raise", False
            for j, e in self.pake_elem.items():
                if e == elem:
                    return f"P peer {j}", (j != ci and side != c.side)
            wf = self.wellformed_elem(elem)
            if wf is True:
                if elem not in self.strangers:
                    self.strangers.append(elem)
                return f"P stranger {self.strangers.index(elem)}", False
            self.tags.add("pake-refused:" + type(wf).__name__)
            return "P bad", False
        r = self.registry.get(body)
        if r is None:
            # sanity of the AEAD assumption: a body nobody sealed opens under no key in play
            for k in {self.key_of(0), self.key_of(1)} - {None}:
                try:
                    if ref_open(k, side, phase, body) is not None:
                        self.viol.append(("aead-break", f"unsealed body opens under ({side},{phase})"))
                except Exception:
                    pass
            return "J " + hx(body[:4]), False
        session = self.key_of(ci) or self.key_of(1 - ci)
        legit = (r["key"] == session and r["side"] == side and r["phase"] == phase and side != c.side)
        return f"{r['tag']} {hs(r['side'])} {hs(r['phase'])} {hx(r['pt'])}", legit

    # -- primitive steps
    def c2s(self, ci):
        W = self.W
        c = W.clients[ci]
        if c.conn is None or not c.conn.c2s:
            return False
        n0 = len(W.sent[ci])
        W.c2s(ci)
        for m in W.sent[ci][n0:]:
            if m.get("type") == "add":
                body = bytes.fromhex(m["body"])
                if m["phase"] == "pake":
                    try:
                        self.pake_elem[ci] = unhexlify(json.loads(body.decode("utf8"))["pake_v1"])
                    except Exception:
                        pass
                else:
                    k = self.key_of(ci)
                    pt = ref_open(k, c.side, m["phase"], body) if k else None
                    if pt is None:
                        self.viol.append(("sealed-under-wrong-key",
                                          f"client {ci} sent phase {m['phase']!r} not sealed under phaseKey(K, own side, phase)"))
                    else:
                        self.registry[body] = dict(key=k, tag=f"S {ci}", side=c.side, phase=m["phase"], pt=pt, by=ci)
        return True

    def s2c(self, ci):
        W = self.W
        c = W.clients[ci]
        if c.conn is None or not c.conn.s2c:
            return False
        payload = c.conn.s2c.popleft()
        msg = bytes_to_dict(payload)
        t = msg.get("type")
        if t == "message" and msg.get("side") != c.side and \
                (self.hold[ci] is True or (self.hold[ci] and self.hold[ci] == msg.get("phase"))):
            self.held[ci].append(payload)       # the server delivers it later (`release`)
            return True
        snap = self.snapshot(ci)
        if t == "message":
            side, phase, body = msg["side"], msg["phase"], bytes.fromhex(msg["body"])
            self.exc_override = {}
            o_before = self.machine(c.boss._O)
            k_before, b_before = self.machine(c.boss._K), self.machine(c.boss)
            desc, legit = self.describe(ci, side, phase, body)
            before = self.processed(ci) or set()
            nrx0 = c.boss._O._queue.__len__(), len(c.events)
            exc = self.guarded_ws_message(c, payload)
            after = self.processed(ci)
            # accepted = it got past Mailbox's dedup (when `_processed` cannot be read: it had an effect further up)
            accepted = (phase in after and phase not in before) if after is not None else \
                ((c.boss._O._queue.__len__(), len(c.events)) != nrx0 or exc is not None)
            if accepted and not legit:
                self.accepted_bad[ci].append((side, phase, desc))
            # an unusable PAKE message (undecodable, no pake_v1, element refused by spake2, our own element reflected)
            if accepted and phase == "pake" and (desc.split(" ")[1] in ("raise", "missing", "bad") or desc == f"P peer {ci}"):
                k_after = self.machine(c.boss._K)
                if k_after == "S01":
                    self.stashed_bad[ci] = desc
                elif k_before == "S10" and k_after == "S11":
                    self.consumed_bad_pake(ci, desc, b_before, exc)
            # which frames did Order hand on to Receive in this step?
            handed = []
            if accepted and phase != "pake":
                if o_before == "S0_no_pake":
                    self.shadow_q[ci].append((side, phase, desc, legit))
                else:
                    handed = [(side, phase, desc, legit)]
            elif accepted and phase == "pake" and o_before == "S0_no_pake" and self.machine(c.boss._O) == "S1_yes_pake":
                handed, self.shadow_q[ci] = self.shadow_q[ci], []
            bad = [x[:3] for x in handed if not x[3]]
            if bad:
                self.processed_bad[ci] += bad
                self.tags.add("processed-bad:" + ("drained" if phase == "pake" else "direct"))
                r_state = self.machine(c.boss._R)
                if exc is None and r_state != "S3_scared":
                    # no exception escaped, so every handed frame went through Receive.got_message with a key: a frame
                    # whose label is not the one it was sealed for must have been `bad`
                    self.viol.append(("relabelled-accepted-as-valid",
                                      f"client {ci} processed manipulated frame(s) {bad[:2]} (re-labelled side/phase, foreign or "
                                      f"unsealed body) and Receive is {r_state}, not S3_scared"))
            self.tags.add("rx:" + desc.split(" ")[0] + (":" + desc.split(" ")[1] if desc[0] == "P" else "") +
                          (":legit" if legit else ":bad") + (":accepted" if accepted else ":ignored"))
            evs = self.line(ci, f"rx {hs(side)} {hs(phase)} {desc}", exc, snap)
            if exc:
                self.tags.add("exc:" + self.kind(exc))
            self.exc_override = {}
            for e in evs:
                self.tags.add("ev:" + e.split(":")[0] + (":" + e.split(":")[1] if e.startswith("closed") else ""))
        else:
            exc = W._guard(c, lambda: c.rc.ws_message(payload))
            if t == "claimed":
                self.line(ci, "claimed", exc, snap)
            elif t == "closed":
                self.line(ci, "mclosed", exc, snap)
            else:
                self.after_unmodelled(ci, snap)
        return True

    def after_unmodelled(self, ci, snap):
        """a real step with no model line: the only modelled thing that may happen is Terminator → B.closed()"""
        c = self.W.clients[ci]
        new = [e for e in c.events[snap[0]:] if e[0] != "welcome"]
        if new:
            if [e[0] for e in new] == ["closed"] and new[0][1] in ("happy", "LonelyError", "WrongPasswordError"):
                self.line(ci, "tclosed", None, snap)
            else:
                self.lines.append(f"{ci} unmodelled-step")
                self.expect.append("events outside the modelled receive path: %r" % (new,))

    def turn(self, ci):
        c = self.W.clients[ci]
        if not c.eq._calls:
            return False
        snap = self.snapshot(ci)
        self.W.turn(ci)
        self.after_unmodelled(ci, snap)
        return True

    def svc(self, ci):
        c = self.W.clients[ci]
        if c.svc.stopping is None or c.svc.stopping.called:
            return False
        snap = self.snapshot(ci)
        self.W.svc_stopped(ci)
        self.after_unmodelled(ci, snap)
        return True

    def settle(self, limit=4000):
        n = 0
        progress = True
        while progress and n < limit:
            progress = False
            for ci in (0, 1):
                while self.c2s(ci):
                    progress = True
                    n += 1
            for ci in (0, 1):
                if self.s2c(ci):
                    progress = True
                    n += 1
                if self.turn(ci):
                    progress = True
                    n += 1
                if self.svc(ci):
                    progress = True
                    n += 1

    def api(self, ci, text, f):
        c = self.W.clients[ci]
        snap = self.snapshot(ci)
        k_before, b_before = self.machine(c.boss._K), self.machine(c.boss)
        try:
            f()
            exc = None
        except Exception as e:
            exc = type(e).__name__
        if self.stashed_bad[ci] and k_before == "S01" and self.machine(c.boss._K) == "S11":
            d, self.stashed_bad[ci] = self.stashed_bad[ci], None
            self.consumed_bad_pake(ci, d, b_before, exc)
        self.line(ci, text, exc, snap)

    # -- message frames queued to client ci
    def frames(self, ci):
        c = self.W.clients[ci]
        if c.conn is None:
            return []
        return [i for i, p in enumerate(c.conn.s2c) if bytes_to_dict(p).get("type") == "message"]

    def queue(self, ci, side, phase, body):
        c = self.W.clients[ci]
        if c.conn is None:
            return False
        c.conn.s2c.append(dict_to_bytes({"type": "message", "side": side, "phase": phase, "body": body.hex(), "id": "ff"}))
        self.tampered = True
        return True

    def nonce(self):
        self.nonce_ctr += 1
        return hashlib.sha256(b"nonce%d" % self.nonce_ctr).digest()[:24]

    def other_side(self, ci, arg):
        c = self.W.clients[ci]
        o = self.W.clients[1 - ci]
        return [o.side, "feedfeed00", "abc", "x" * 12, "sé", c.side + "é", o.side + "é", "é" + c.side][arg % 8]

    # -- one script op
    def do(self, op):
        W = self.W
        k = op[0]
        if k == "open":
            ci = op[1]
            c = W.clients[ci]
            if c.conn is None:
                snap = self.snapshot(ci)
                r = W.open(ci)
                self.line(ci, "connected", None if r in ("ok", "noop") else r, snap)
        elif k == "drop":            # the connection is lost; a later ["open", c] re-opens the mailbox (server replays it all)
            ci = op[1]
            c = W.clients[ci]
            if c.conn is not None and c.svc.started:
                snap = self.snapshot(ci)
                r = W.drop(ci)
                self.dropped = True
                self.tags.add("op:drop")
                self.line(ci, "lost", None if r in ("ok", "noop") else r, snap)
        elif k == "dropmsg":         # the server does not deliver the queued `message` frames of one phase (e.g. it replays
            ci, phase = op[1], op[2]  # the mailbox after a re-open selectively: everything but the PAKE message)
            c = W.clients[ci]
            if c.conn is not None:
                keep = [p for p in c.conn.s2c
                        if not (bytes_to_dict(p).get("type") == "message" and bytes_to_dict(p).get("phase") == phase
                                and bytes_to_dict(p).get("side") != c.side)]
                if len(keep) != len(c.conn.s2c):
                    c.conn.s2c.clear()
                    c.conn.s2c.extend(keep)
                    self.tags.add("op:dropmsg")
        elif k == "hold":            # from now on the server withholds the peer's messages (or only those of one phase)
            self.hold[op[1]] = op[2] if len(op) > 2 else True
        elif k == "release":         # … and now delivers them: in order, or the encrypted ones BEFORE the PAKE message,
            ci, mode, sidearg = op[1:4]   # the first encrypted one optionally under a rewritten side label
            c = W.clients[ci]
            self.hold[ci] = False
            fr, self.held[ci] = self.held[ci], []
            if c.conn is not None and fr:
                ms = [bytes_to_dict(p) for p in fr]
                if mode == "early":
                    ms = [m for m in ms if m["phase"] != "pake"] + [m for m in ms if m["phase"] == "pake"]
                    if len({m["phase"] == "pake" for m in ms}) == 2:
                        self.tags.add("op:release:early")
                if sidearg is not None:
                    for m in ms:
                        if m["phase"] != "pake":
                            new = self.other_side(ci, sidearg)
                            if new != m["side"]:
                                m["side"] = new
                                self.tampered = True
                                self.tags.add("op:release:side" + (":early" if mode == "early" else ""))
                            break
                for m in reversed(ms):
                    c.conn.s2c.appendleft(dict_to_bytes(m))
        elif k == "relabel":         # a genuine ciphertext of client `who` to client ci under a decorated label
            ci, who, n, side_sfx, phase_sfx = op[1:6]
            mode = op[6] if len(op) > 6 else "append"
            adds = [m for m in W.sent[who] if m.get("type") == "add" and m["phase"] != "pake"]
            if adds:
                m = adds[n % len(adds)]
                side_form = op[7] if len(op) > 7 else None      # the label in another spelling (see `respell`)
                phase_form = op[8] if len(op) > 8 else None
                side = respell(W.clients[who].side, side_form) + side_sfx
                ph = respell(m["phase"], phase_form)
                phase = {"append": ph + phase_sfx, "prepend": phase_sfx + ph,
                         "insert": ph[:1] + phase_sfx + ph[1:]}[mode]
                if self.queue(ci, side, phase, bytes.fromhex(m["body"])):
                    self.tags.add("op:relabel:" + ("own" if who == ci else "peer") + (":side" if side_sfx else "") +
                                  (":phase" if phase_sfx else "") + (":respelled-side:" + side_form if side_form else "") +
                                  (":respelled-phase:" + phase_form if phase_form else ""))
        elif k == "shift":           # boundary shift: a genuine ciphertext of `who` for (side, phase) under the label pair that
            ci, who, phase, kk = op[1:5]  # moves kk characters across the side|phase boundary (kk > 0: the head of the phase
            wside = W.clients[who].side   # onto the end of the side; kk < 0: the tail of the side onto the head of the phase)
            cand = [b for b, r in self.registry.items() if r["side"] == wside and r["phase"] == phase]
            if cand and kk != 0 and abs(kk) < (len(phase) if kk > 0 else len(wside)):
                if kk > 0:
                    side2, phase2 = wside + phase[:kk], phase[kk:]
                else:
                    side2, phase2 = wside[:kk], wside[kk:] + phase
                if self.queue(ci, side2, phase2, cand[0]):
                    self.tags.add("op:shift:" + ("own" if who == ci else "peer") + (":+" if kk > 0 else ":-") +
                                  (":dilate" if phase.startswith("dilate-") else ""))
        elif k == "respell":         # a queued frame's side or phase label in another spelling: instead of the genuine
            ci, i, which, form = op[1:5]     # frame ("replace") or as an extra copy ahead of / behind it ("before"/"after")
            mode = op[5] if len(op) > 5 else "replace"
            idx = self.frames(ci)
            if idx:
                q = W.clients[ci].conn.s2c
                j = idx[i % len(idx)]
                m = bytes_to_dict(q[j])
                m2 = dict(m)
                m2[which] = respell(m[which], form)
                if m2[which] != m[which]:
                    if mode == "replace":
                        q[j] = dict_to_bytes(m2)
                    elif mode == "before":
                        q.insert(j, dict_to_bytes(m2))
                    else:
                        q.insert(j + 1, dict_to_bytes(m2))
                    self.tampered = True
                    self.tags.add(f"op:respell:{which}:{form}:{mode}")
        elif k == "nameplate":       # input_code mode: nameplate first
            ci = op[1]
            c = W.clients[ci]
            c.helper = c.w.input_code()
            c.helper.choose_nameplate(CODE.split("-")[0])
        elif k == "code":
            ci = op[1]
            c = W.clients[ci]
            if c.helper is not None:
                self.api(ci, "code " + hs(CODE), lambda: c.helper.choose_words(CODE.split("-", 1)[1]))
            else:
                self.api(ci, "code " + hs(CODE), lambda: c.w.set_code(CODE))
        elif k == "send":
            ci, h = op[1], op[2]
            self.api(ci, "send " + (h or "-"), lambda: W.clients[ci].w.send_message(bytes.fromhex(h)))
        elif k == "close":
            ci = op[1]
            c = W.clients[ci]

            def do_close():
                d = c.w.close()
                if d is not None:        # Deferred API: close() returns a Deferred (maybe a Failure)
                    d.addBoth(lambda r: c.dres.append(("close", -1, "ok", verdict_name(r))))
            self.api(ci, "close", do_close)
        elif k == "get":             # k requests issued in one go (pipelined when k > 1)
            for _ in range(op[3]):
                self.request(op[1], op[2])
        elif k == "getchain":        # one request; its callback issues the next, `depth` times
            self.request(op[1], op[2], chain=op[3])
        elif k == "c2s":
            self.c2s(op[1])
        elif k == "s2c":
            self.s2c(op[1])
        elif k == "pump":
            for _ in range(op[1]):
                for ci in (0, 1):
                    while self.c2s(ci):
                        pass
                for ci in (0, 1):
                    self.s2c(ci)
                    self.turn(ci)
        elif k == "settle":
            self.settle()
        elif k in ("tamper", "dupmsg", "swapmsg"):
            if self.frames(op[1]):
                if k == "tamper" and op[3] == "side" and isinstance(op[4], int):
                    op = list(op)
                    op[4] = self.other_side(op[1], op[4])
                r = W.do(list(op))
                if r == "ok":
                    self.tampered = True
                    self.tags.add("op:" + k + (":" + op[3] if k == "tamper" else ""))
        elif k == "swaplabels":      # exchange the phase labels of two queued frames (bodies stay)
            ci, i, j = op[1:4]
            idx = self.frames(ci)
            if len(idx) >= 2:
                q = W.clients[ci].conn.s2c
                a, b = idx[i % len(idx)], idx[j % len(idx)]
                ma, mb = bytes_to_dict(q[a]), bytes_to_dict(q[b])
                if ma["phase"] != mb["phase"]:
                    ma["phase"], mb["phase"] = mb["phase"], ma["phase"]
                    q[a], q[b] = dict_to_bytes(ma), dict_to_bytes(mb)
                    self.tampered = True
                    self.tags.add("op:swaplabels")
        elif k == "replay":          # cross-phase replay: a queued frame's body again under another phase
            ci, i, phase = op[1:4]
            idx = self.frames(ci)
            if idx:
                m = bytes_to_dict(W.clients[ci].conn.s2c[idx[i % len(idx)]])
                if self.queue(ci, m["side"], phase, bytes.fromhex(m["body"])):
                    self.tags.add("op:replay")
        elif k == "reflect":         # client ci's own k-th sent message back to it under another side
            ci, n, arg = op[1:4]
            adds = [m for m in W.sent[ci] if m.get("type") == "add"]
            if adds:
                m = adds[n % len(adds)]
                side = self.other_side(ci, arg)
                phase = m["phase"] if len(op) < 5 or op[4] is None else op[4]
                if self.queue(ci, side, phase, bytes.fromhex(m["body"])):
                    self.tags.add("op:reflect" + (":pake" if m["phase"] == "pake" else ""))
        elif k == "fabpake":
            ci, kind, arg = op[1:4]
            side = self.other_side(ci, arg)
            o = 1 - ci
            if kind == "missing":
                body = dict_to_bytes({"pake_v2": "00"})
            elif kind == "notjson":
                body = [b"\xff\xfe", b"{", b"[1", b"", b"[" * 5000, b'{"pake_v1": 5}', b'{"pake_v1": "zz"}', b'[1]'][arg % 8]
            elif kind == "badelem":
                body = dict_to_bytes({"pake_v1": (b"S" + bytes([arg % 256]) * 32).hex()})
            elif kind == "offside":
                body = dict_to_bytes({"pake_v1": (b"A" + self.pake_elem.get(o, b"S" * 33)[1:]).hex()})
            elif kind == "stranger":
                s = SPAKE2_Symmetric(b"stranger%d" % arg, idSymmetric=b"z")
                body = dict_to_bytes({"pake_v1": s.start().hex()})
            elif kind == "ext":
                body = dict_to_bytes({"pake_v1": (self.pake_elem.get(o, b"S" * 33) + b"x").hex()})
            else:
                raise ValueError(kind)
            if self.queue(ci, side, "pake", body):
                self.tags.add("op:fabpake:" + kind)
        elif k == "keyholder":       # a holder of the session key seals pt for (side, phase)
            ci, arg, phase, pth = op[1:5]
            j = 1 - ci
            key = self.key_of(j) or self.key_of(ci)
            side = self.other_side(ci, arg) if arg >= 0 else W.clients[ci].side
            if key is not None and all(ord(ch) < 128 for ch in side + phase):
                pt = bytes.fromhex(pth)
                body = ref_seal(key, side, phase, pt, self.nonce())
                self.registry[body] = dict(key=key, tag=f"S {j if self.key_of(j) else ci}", side=side, phase=phase, pt=pt, by="keyholder")
                if self.queue(ci, side, phase, body):
                    self.tags.add("op:keyholder:" + py_classify(phase)[0])
        elif k == "foreign":         # a sealing under a key that is not the session key
            ci, arg, phase, pth = op[1:5]
            side = self.other_side(ci, arg)
            if all(ord(ch) < 128 for ch in side + phase):
                fk = hashlib.sha256(b"foreign%d" % arg).digest()
                if fk not in self.foreign_keys:
                    self.foreign_keys.append(fk)
                pt = bytes.fromhex(pth)
                body = ref_seal(fk, side, phase, pt, self.nonce())
                self.registry[body] = dict(key=fk, tag=f"X {self.foreign_keys.index(fk)}", side=side, phase=phase, pt=pt, by="foreign")
                if self.queue(ci, side, phase, body):
                    self.tags.add("op:foreign")
        elif k == "inject":
            ci, arg, phase, bodyhex = op[1:5]
            if self.queue(ci, self.other_side(ci, arg), phase, bytes.fromhex(bodyhex)):
                self.tags.add("op:inject")
        else:
            raise ValueError("unknown op %r" % (op,))

    # -- the whole case
    def run(self):
        case = self.case
        n_log0 = len(LOGGED)
        with World(seed=case.get("seed", 0)) as W:
            self.W = W
            deferred = case.get("deferred")
            if deferred is None:         # at least one client of every case uses the Deferred API
                deferred = [case.get("seed", 0) % 2]
            for ci in (0, 1):
                c = W.add_client(delegated=(ci not in deferred), versions={"v": ci, "x": case.get("seed", 0) % 7})
                if ci in deferred:
                    self.setup_deferred(c)
                self.lines.append(f"new {ci} {hs(c.side)} {hx(dict_to_bytes(c.boss._versions))}")
                self.expect.append("ok")
            for op in case["script"]:
                self.do(op)
            # wind down: everything still in flight (or withheld) is delivered, then both applications close
            for ci in (0, 1):
                if self.hold[ci] or self.held[ci]:
                    self.do(["release", ci, "fifo", None])
            self.settle()
            for ci in (0, 1):            # the application drains what is still queued for it
                if getattr(W.clients[ci], "deferred_api", False) and not any(n == "closed" for n, _ in W.clients[ci].events):
                    self.do(["get", ci, "message", 8])
                    self.do(["get", ci, "versions", 1])
            self.settle()
            for ci in (0, 1):
                if not any(n == "closed" for n, _ in W.clients[ci].events):
                    self.do(["close", ci])
            self.settle()
            self.oracle()
        del LOGGED[n_log0:]
        nontrivial = self.tampered or any(t.startswith("dispatch") or t.startswith("exc") for t in self.tags)
        return Result(self.lines, self.expect, self.viol, sorted(self.tags), nontrivial=nontrivial or True)

    def oracle_deferred(self, ci, c, K, allowed, w_msgs, w_vers):
        """what the application's Deferreds fired with: get_message() results are the phases 0, 1, 2 … in request order,
        each once, each sealed for exactly that phase; get_versions()/get_verifier() fire with what the peer sealed / what
        the session key gives, nothing else"""
        got = [bytes.fromhex(v) for (w, no, st, v) in sorted((r for r in c.dres if r[0] == "message"), key=lambda r: r[1]) if st == "ok"]
        for n, m in enumerate(got):
            if m not in allowed.get(("num", n), []):
                self.viol.append(("deferred-message-not-phase-n", f"client {ci}: the {n}-th get_message() fired with {m.hex()}, which was not "
                                  f"sealed under the session key for phase {n} by another side"))
                break
        if got != w_msgs[:len(got)]:
            self.viol.append(("deferred-messages-differ", f"client {ci}: get_message() Deferreds fired with {[m.hex() for m in got][:4]}, Boss "
                              f"handed over {[m.hex() for m in w_msgs][:4]}"))
        for (w, no, st, v) in c.dres:
            if st != "ok":
                continue
            if w in ("versions", "auto:versions"):
                ok = False
                for pt in allowed.get(("version",), []):
                    try:
                        if json.loads(pt.decode("utf8")).get("app_versions", {}) == json.loads(v):
                            ok = True
                    except Exception:
                        pass
                if not ok or (w_vers and json.loads(w_vers[0]) != json.loads(v)):
                    self.viol.append(("deferred-versions-not-sealed", f"client {ci}: get_versions() fired with {v}, which is not what a key "
                                      f"holder sealed for phase 'version' (Boss handed over {w_vers[:1]})"))
            if w in ("verifier", "auto:verifier"):
                if K is None or v != ref_hkdf(K, b"wormhole:verifier").hex():
                    self.viol.append(("deferred-verifier-wrong", f"client {ci}: get_verifier() fired with {v[:16]}…, not derive_key(K, 'wormhole:verifier')"))

    # -- the property, on the real run
    def oracle(self):
        W = self.W
        for ci in (0, 1):
            c = W.clients[ci]
            K = self.key_of(ci)
            allowed = {}   # class -> list of plaintexts sealed under K for that class by another side
            for body, r in self.registry.items():
                if K is not None and r["key"] == K and r["side"] != c.side:
                    allowed.setdefault(py_classify(r["phase"]), []).append(r["pt"])
            msgs = [bytes.fromhex(v) for n, v in c.events if n == "message"]
            for n, m in enumerate(msgs):
                if m not in allowed.get(("num", n), []):
                    self.viol.append(("delivered-not-sealed", f"client {ci}: message #{n} = {m.hex()} was not sealed under the session key "
                                      f"for phase {n} by another side"))
            vers = [v for n, v in c.events if n == "versions"]
            if len(vers) > 1:
                self.viol.append(("phase-twice", f"client {ci}: versions delivered {len(vers)} times"))
            for v in vers:
                ok = False
                for pt in allowed.get(("version",), []):
                    try:
                        if json.loads(pt.decode("utf8")).get("app_versions", {}) == json.loads(v):
                            ok = True
                    except Exception:
                        pass
                if not ok:
                    self.viol.append(("delivered-not-sealed", f"client {ci}: versions {v} were not sealed under the session key for phase 'version' by another side"))
            dil = list(c.boss._D._pending_inbound_dilate_messages)
            for n, m in enumerate(dil):
                if m not in allowed.get(("dilate", n), []):
                    self.viol.append(("delivered-not-sealed", f"client {ci}: dilation message #{n} = {m.hex()} was not sealed for phase dilate-{n}"))
            if getattr(c, "deferred_api", False):
                self.oracle_deferred(ci, c, K, allowed, msgs, vers)
            closed = [v for n, v in c.events if n == "closed"]
            if len(closed) > 1:
                self.viol.append(("closed-twice", f"client {ci}: closed delivered {len(closed)} times: {closed}"))
            for d, b_before in self.bad_pake[ci]:
                if b_before in ("S0_empty", "S1_lonely", "S2_happy") and closed and closed[-1] != "WrongPasswordError":
                    self.viol.append(("bad-pake-verdict:" + closed[-1],
                                      f"client {ci} was given the unusable PAKE message {d!r} while open and closed "
                                      f"{closed[-1]}, not WrongPasswordError"))
                    break
            if self.processed_bad[ci] and closed and closed[-1] in ("happy", "LonelyError"):
                self.viol.append(("manipulated-processed-not-closed-with-error",
                                  f"client {ci} handed manipulated frame(s) {self.processed_bad[ci][:2]} to Receive and closed "
                                  f"{closed[-1]} (must be WrongPasswordError or an error)"))
            if self.accepted_bad[ci] and closed and closed[-1] == "happy":
                self.viol.append(("manipulated-accepted-happy", f"client {ci} accepted manipulated frame(s) {self.accepted_bad[ci][:2]} and still closed happy"))
        if not self.tampered and not self.dropped and self.case.get("honest"):
            for ci in (0, 1):
                c, o = W.clients[ci], W.clients[1 - ci]
                want = [h for op in self.case["script"] if op[0] == "send" and op[1] == 1 - ci for h in [op[2]]]
                got = [v for n, v in c.events if n == "message"]
                closed = [v for n, v in c.events if n == "closed"]
                if got != want or closed != ["happy"] or not any(n == "versions" for n, _ in c.events):
                    self.viol.append(("honest-run-not-delivered", f"client {ci}: untampered run delivered {got} of {want}, closed {closed}"))


def run_case(case):
    return Runner(case).run()


# ---------------------------------------------------------------------------
# case generation

def payload(rng):
    n = rng.choice([0, 1, 1, 2, 3, 8, 40])
    return bytes(rng.randrange(256) for _ in range(n)).hex()


def base_script(rng, ka, kb, mode, early_sends):
    """an honest exchange as a script skeleton; returns (script, positions where tamper ops may be inserted)"""
    s = []
    s += [["open", 0], ["open", 1]]
    if mode == "input":
        s += [["code", 0], ["nameplate", 1], ["pump", rng.choice([6, 8, 12])]]   # client 1 gets the peer's PAKE before its words
        s += [["code", 1]]
    else:
        order = rng.choice([[0, 1], [1, 0]])
        s += [["code", order[0]], ["code", order[1]]]
    sends = [["send", 0, payload(rng)] for _ in range(ka)] + [["send", 1, payload(rng)] for _ in range(kb)]
    rng.shuffle(sends)
    ne = min(len(sends), early_sends)
    s += sends[:ne]
    rest = sends[ne:]
    for _ in range(rng.choice([2, 4, 6])):
        s.append(["pump", 1])
    for x in rest:
        s.append(x)
        if rng.random() < 0.5:
            s.append(["pump", rng.choice([1, 2])])
    s.append(["pump", rng.choice([1, 3, 6])])
    return s


UDIGITS = ["\u0660", "\u0661", "\u0662", "\u0663", "\uff10", "\uff11", "\uff12", "\u0967"]   # Arabic-Indic, full-width, Devanagari
PHASES = ["0", "1", "2", "5", "version", "pake", "dilate-0", "dilate-1", "00", "01", "1\n", "dilate-0\n", "foo", "", "-1", "dilate-", "dilate-x", "vé",
          "0\u0661", "\u06600", "1\uff11", "\u0661", "versi\u00f6on", "dilate-0\u0660", "0é"]
VERSIONS_PT = [b'{"app_versions": {"k": 1}}', b'{}', b'{"app_versions": {}, "extra": [1]}', b'not json']


def tamper_op(rng, ci):
    kind = rng.choice(["flip", "flip", "trunc", "extend", "random", "phase", "phase", "side", "side", "dupmsg", "swapmsg",
                       "relabel", "relabel", "relabel-own", "uniphase", "respell", "respell", "relabel-respelled", "reflect-respelled",
                       "swaplabels", "replay", "replay", "reflect", "reflect", "reflectpake", "fabpake", "fabpake",
                       "keyholder", "keyholder", "keyholder-own", "foreign", "inject"])
    i = rng.randrange(8)
    if kind in ("flip", "trunc", "extend", "random"):
        return ["tamper", ci, i, kind, rng.randrange(4096)]
    if kind == "phase":
        return ["tamper", ci, i, "phase", rng.choice(PHASES)]
    if kind == "side":
        return ["tamper", ci, i, "side", rng.randrange(1, 8)]
    if kind == "relabel":        # the peer's genuine ciphertext under its label decorated with non-ASCII characters
        return ["relabel", ci, 1 - ci, rng.randrange(8), rng.choice(["", "", "é", "\u00e5"]),
                rng.choice(UDIGITS + ["", "é"]), rng.choice(["append", "append", "prepend", "insert"])]
    if kind == "respell":        # a queued frame under another spelling of its side / phase
        return ["respell", ci, i, rng.choice(["side", "phase"]), rng.choice(FORMS_K + FORMS_K + FORMS_C),
                rng.choice(["replace", "before", "after"])]
    if kind == "relabel-respelled":   # the peer's ciphertext again, its labels in another spelling
        return ["relabel", ci, 1 - ci, rng.randrange(8), "", "", "append", rng.choice([None] + FORMS_K + FORMS_C),
                rng.choice([None] + FORMS_K + FORMS_C)]
    if kind == "reflect-respelled":   # our own ciphertext under another spelling of our own side
        return ["relabel", ci, ci, rng.randrange(8), "", "", "append", rng.choice(FORMS_K + FORMS_K + FORMS_C),
                rng.choice([None, None] + FORMS_K)]
    if kind == "relabel-own":    # our own ciphertext reflected under (own side + accent)
        return ["relabel", ci, ci, rng.randrange(8), rng.choice(["é", "\u00e5", "\u0661"]), rng.choice(["", "", "\u0661"]), "append"]
    if kind == "uniphase":       # a queued frame re-labelled: its phase with a Unicode digit appended
        return ["tamper", ci, i, "phase", rng.choice(["0", "1", "2"]) + rng.choice(UDIGITS)]
    if kind == "dupmsg":
        return ["dupmsg", ci, i]
    if kind == "swapmsg":
        return ["swapmsg", ci, i, rng.randrange(8)]
    if kind == "swaplabels":
        return ["swaplabels", ci, i, rng.randrange(8)]
    if kind == "replay":
        return ["replay", ci, i, rng.choice(PHASES)]
    if kind == "reflect":
        return ["reflect", ci, rng.randrange(8), rng.randrange(0, 8), rng.choice([None, None, rng.choice(PHASES)])]
    if kind == "reflectpake":
        return ["reflect", ci, 0, rng.randrange(0, 8), None]
    if kind == "fabpake":
        return ["fabpake", ci, rng.choice(["missing", "notjson", "notjson", "badelem", "offside", "stranger", "ext"]), rng.randrange(0, 8)]
    if kind == "keyholder":
        ph = rng.choice(PHASES)
        pt = rng.choice(VERSIONS_PT).hex() if ph == "version" else payload(rng)
        return ["keyholder", ci, rng.randrange(0, 4), ph, pt]
    if kind == "keyholder-own":
        return ["keyholder", ci, -1, rng.choice(PHASES), payload(rng)]
    if kind == "foreign":
        return ["foreign", ci, rng.randrange(0, 4), rng.choice(PHASES), payload(rng)]
    return ["inject", ci, rng.randrange(0, 4), rng.choice(PHASES), bytes(rng.randrange(256) for _ in range(rng.choice([0, 1, 24, 40, 41]))).hex()]


def prepake_case(rng):
    """the peer's encrypted message(s) reach the victim BEFORE the peer's PAKE message (Order queues them), usually with
    a rewritten side label; the PAKE message follows and Order drains its queue"""
    v = rng.randrange(2)
    s = [["open", 0], ["open", 1]] + [["code", c] for c in rng.choice([[0, 1], [1, 0]])]
    s.append(["hold", v] if rng.random() < 0.7 else ["hold", v, "version"])   # … or only its version: phases overtake it
    for _ in range(rng.randrange(0, 3)):
        s.append(["send", rng.randrange(2), payload(rng)])
    s.append(["pump", rng.choice([8, 10, 14])])
    mode = rng.choice(["early", "early", "early", "fifo"])
    sidearg = rng.choice([None, 1, 1, 2, 3, 4, 5, 6, 7])
    s.append(["release", v, mode, sidearg])
    if rng.random() < 0.3:
        s.append(tamper_op(rng, v))
    for _ in range(rng.randrange(0, 3)):
        s.append(["send", rng.randrange(2), payload(rng)])
        s.append(["pump", rng.choice([1, 2, 4])])
    return dict(kind="run", seed=rng.randrange(10**6), honest=False, script=s)


def add_requests(rng, case):
    """which client(s) use the Deferred API, and when the application asks for messages / versions / verifier: one at
    a time, pipelined (k in one turn), from inside the previous callback; before and after the messages arrive"""
    d = rng.choice([[0], [1], [0, 1]])
    case["deferred"] = d
    s = case["script"]
    for _ in range(rng.choice([1, 2, 3, 4])):
        ci = rng.choice(d)
        what = rng.choice(["message", "message", "message", "versions", "verifier"])
        r = rng.random()
        if r < 0.4:
            op = ["get", ci, what, 1]
        elif r < 0.75:
            op = ["get", ci, what, rng.choice([2, 2, 3, 5])]
        else:
            op = ["getchain", ci, what, rng.choice([1, 2, 4])]
        pos = rng.randrange(4, len(s) + 1)
        s.insert(pos, op)
    return case


def gen_case(rng, ntamper=None):
    return add_requests(rng, gen_case0(rng, ntamper))


def long_case(rng):
    """a run long enough for two-digit phases (11–12 small messages one way), the victim's phase 0 withheld, and boundary-
    shifting relabels of the two-digit-phase ciphertexts (the peer's, or the victim's own reflected)"""
    v = rng.randrange(2)
    o = 1 - v
    who = rng.choice([o, o, v])
    s = [["open", 0], ["open", 1], ["code", 0], ["code", 1], ["hold", v, "0"]]
    n = rng.choice([11, 12])
    s += [["send", who, "%02x%02x" % (i, rng.randrange(256))] for i in range(n)]
    if who == v:
        s.append(["send", o, "ee"])
    s.append(["pump", rng.choice([30, 40])])
    for _ in range(rng.choice([1, 2])):
        ph = rng.choice(["10", "10", "11"]) if n == 12 else "10"
        s.append(["shift", v, who, ph, rng.choice([1, 1, 1, -1, -2])])
        if rng.random() < 0.5:
            s.append(["s2c", v])
    if rng.random() < 0.4:
        s.append(["keyholder", v, 0, "dilate-10", "d10d"])
        s.append(["shift", v, o, "dilate-10", rng.choice([7, 8, 1, -1])])
    s += [["release", v, "fifo", None], ["pump", 6]]
    return dict(kind="run", seed=rng.randrange(10**6), honest=False, script=s)


def crossstream_case(rng):
    """the two in-order inbound streams (application phases, dilation seqnums) and the two clients of the process next
    to each other: a key holder's dilate-k (k >= 1) reaches the victim before dilate-0 / an application phase n >= 1 before
    phase 0, the other stream then advances past that number; or one client has an early phase parked while the other
    client's cursor reaches the same number"""
    v = rng.randrange(2)
    o = 1 - v
    s = [["open", 0], ["open", 1], ["code", 0], ["code", 1]]
    kind = rng.choice(["dilate-early", "dilate-early", "phase-early", "other-client"])
    if kind == "dilate-early":
        k = rng.choice([1, 1, 2])
        s += [["pump", 12], ["keyholder", v, 0, "dilate-%d" % k, "d%dd%d" % (k, k)], ["s2c", v]]
        s += [["send", o, "%02x%02x" % (0xa0 + i, rng.randrange(256))] for i in range(k + rng.choice([0, 1]))]
        s += [["pump", 6]]
        if rng.random() < 0.5:
            s += [["keyholder", v, 0, "dilate-0", "d0d0"], ["pump", 2]]
        s += [["send", o, "afaf"], ["pump", 4]]
    elif kind == "phase-early":
        n = rng.choice([2, 3])
        s += [["hold", v, "0"]] + [["send", o, "%02x%02x" % (0xb0 + i, rng.randrange(256))] for i in range(n)] + [["pump", 16]]
        s += [["keyholder", v, 0, "dilate-0", "d0d0"], ["s2c", v]]
        if rng.random() < 0.5:
            s += [["keyholder", v, 0, "dilate-1", "d1d1"], ["s2c", v]]
        s += [["release", v, "fifo", None], ["pump", 4]]
    else:
        n = rng.choice([2, 3])
        s += [["hold", v, "0"]] + [["send", o, "%02x%02x" % (0xc0 + i, rng.randrange(256))] for i in range(n)]
        s += [["send", v, "%02x%02x" % (0xd0 + i, rng.randrange(256))] for i in range(n)] + [["pump", 20]]
        s += [["release", v, "fifo", None], ["pump", 4]]
    return dict(kind="run", seed=rng.randrange(10**6), honest=False, script=s)


def gen_case0(rng, ntamper=None):
    r0 = rng.random()
    if r0 < 0.04:
        return long_case(rng)
    if r0 < 0.10:
        return crossstream_case(rng)
    if r0 < 0.24:
        return prepake_case(rng)
    ka, kb = rng.randrange(0, 7), rng.randrange(0, 7)
    if rng.random() < 0.5:
        ka, kb = rng.randrange(0, 3), rng.randrange(0, 3)
    mode = rng.choice(["set", "set", "input"])
    s = base_script(rng, ka, kb, mode, rng.randrange(0, 4))
    nt = rng.choice([0, 1, 1, 2, 2, 3]) if ntamper is None else ntamper
    for _ in range(nt):
        # a tamper op acts on frames queued to a client, so put it right after a pump
        pos = [i + 1 for i, op in enumerate(s) if op[0] == "pump"]
        p = rng.choice(pos)
        ci = rng.randrange(2)
        t = tamper_op(rng, ci)
        ins = [t]
        if rng.random() < 0.3:        # let the victim process it straight away
            ins.append(["s2c", ci])
        s[p:p] = ins
    if rng.random() < 0.3:
        # the connection of one client drops somewhere after the start and is re-opened (the server then replays the
        # whole mailbox); optionally a selective replay / duplicate on top of it
        pos = [i + 1 for i, op in enumerate(s) if op[0] == "pump"]
        p = rng.choice(pos[len(pos) // 2:] if rng.random() < 0.7 else pos)
        ci = rng.randrange(2)
        ins = [["drop", ci], ["open", ci]]
        if rng.random() < 0.5:       # selective replay after the re-open: everything but the PAKE message
            ins += [["c2s", ci]] * 8 + [["dropmsg", ci, "pake"]]
        ins.append(["pump", rng.choice([1, 2, 4, 8])])
        if rng.random() < 0.4:
            ins.append(rng.choice([["dupmsg", ci, rng.randrange(8)], ["replay", ci, rng.randrange(8), rng.choice(PHASES)],
                                   ["relabel", ci, 1 - ci, rng.randrange(8), "", "", "append"]]))
        s[p:p] = ins
    return dict(kind="run", seed=rng.randrange(10**6), honest=(nt == 0), script=s)


def corpus():
    """hand-picked boundary cases: one per manipulation named in the property, before and after key agreement"""
    H = [["open", 0], ["open", 1], ["code", 0], ["code", 1]]
    out = []
    out.append(dict(kind="run", seed=1, honest=True, script=H + [["send", 0, "aa01"], ["send", 1, "bb01"], ["send", 0, "aa02"], ["settle"]]))
    out.append(dict(kind="run", seed=2, honest=True, script=H + [["settle"]]))
    for t in [["tamper", 1, 0, "flip", 0], ["tamper", 1, 0, "flip", 4095], ["tamper", 1, 0, "trunc", 0], ["tamper", 1, 0, "trunc", 23],
              ["tamper", 1, 0, "extend", 7], ["tamper", 1, 0, "random", 5], ["tamper", 1, 0, "phase", "1"], ["tamper", 1, 0, "phase", "version"],
              ["tamper", 1, 0, "side", 1], ["tamper", 1, 0, "side", 4], ["dupmsg", 1, 0], ["replay", 1, 0, "1"], ["replay", 1, 0, "dilate-0"],
              ["reflect", 1, 2, 1, None], ["reflect", 1, 2, 1, "0"], ["reflect", 1, 1, 0, None], ["swaplabels", 1, 0, 1],
              ["keyholder", 1, 0, "dilate-0", "d0"], ["keyholder", 1, 0, "foo", "ff"], ["keyholder", 1, 0, "1\n", "0a"],
              ["keyholder", 1, -1, "0", "ee"], ["foreign", 1, 0, "0", "ab"], ["keyholder", 1, 2, "00", "cd"]]:
        # after key agreement: both sides have exchanged pake+version, client 0 has sent two messages
        out.append(dict(kind="run", seed=3, honest=False,
                        script=H + [["send", 0, "aa01"], ["send", 0, "aa02"], ["pump", 4], ["send", 1, "bb01"], ["pump", 2], t, ["settle"]]))
    for t in [["reflect", 1, 0, 1, None], ["reflect", 1, 0, 0, None], ["fabpake", 1, "missing", 0], ["fabpake", 1, "notjson", 0],
              ["fabpake", 1, "notjson", 1], ["fabpake", 1, "notjson", 4], ["fabpake", 1, "notjson", 5], ["fabpake", 1, "notjson", 6],
              ["fabpake", 1, "notjson", 7], ["fabpake", 1, "badelem", 3], ["fabpake", 1, "badelem", 2], ["fabpake", 1, "badelem", 7], ["fabpake", 1, "badelem", 255],
              ["fabpake", 1, "offside", 0], ["fabpake", 1, "stranger", 1],
              ["fabpake", 1, "ext", 0], ["inject", 1, 0, "0", "00" * 40], ["inject", 1, 0, "version", ""], ["tamper", 1, 0, "phase", "0"],
              ["tamper", 1, 0, "flip", 30], ["tamper", 1, 0, "side", 1]]:
        # before key agreement: the forged frame is the first thing client 1 sees from the mailbox
        out.append(dict(kind="run", seed=4, honest=False, script=H + [["c2s", 0], ["c2s", 0], ["c2s", 0], ["c2s", 0], ["c2s", 1], ["c2s", 1], ["c2s", 1], ["c2s", 1],
                                                                     ["s2c", 1], ["s2c", 1], ["s2c", 1], ["s2c", 1], t, ["settle"]]))
    # reconnect after key agreement: the server replays the whole mailbox (pake, version, phases) on re-open;
    # then selective replays of the peer's version / pake / phase 0 on the new connection
    AK = H + [["send", 0, "aa01"], ["send", 1, "bb01"], ["pump", 8], ["send", 0, "aa02"], ["pump", 3]]
    for ci in (0, 1):
        out.append(dict(kind="run", seed=8, honest=False, script=AK + [["drop", ci], ["open", ci], ["settle"]]))
        out.append(dict(kind="run", seed=8, honest=False, script=AK + [["drop", ci], ["open", ci], ["pump", 6],
                                                                      ["relabel", ci, 1 - ci, 0, "", "", "append"],
                                                                      ["relabel", ci, 1 - ci, 1, "", "", "append"], ["settle"]]))
        out.append(dict(kind="run", seed=8, honest=False, script=AK + [["drop", ci], ["open", ci], ["pump", 2], ["dupmsg", ci, 0],
                                                                      ["dupmsg", ci, 1], ["drop", ci], ["open", ci], ["settle"]]))
        # selective replay after the re-open: the server replays the peer's version and phases but not the PAKE message
        out.append(dict(kind="run", seed=8, honest=False, script=AK + [["drop", ci], ["open", ci]] + [["c2s", ci]] * 8 +
                        [["dropmsg", ci, "pake"], ["settle"]]))
        out.append(dict(kind="run", seed=8, honest=False, script=AK + [["drop", ci], ["open", ci]] + [["c2s", ci]] * 8 +
                        [["dropmsg", ci, "pake"], ["dropmsg", ci, "version"], ["send", 1 - ci, "ee01"], ["settle"]]))
    out.append(dict(kind="run", seed=8, honest=False, script=H + [["pump", 3], ["drop", 1], ["open", 1], ["send", 0, "aa01"], ["settle"]]))
    # non-ASCII labels whose ASCII residue is an honest label (UnicodeEncodeError -> closes with error):
    # the peer's phase-0 body again as "0"+ARABIC-INDIC ONE (int() = 1) once phase 0 was delivered; the same before the
    # genuine message; our own ciphertext under (own side + accent) before the peer's message of that phase
    for sfx, mode in [("\u0661", "append"), ("\uff11", "append"), ("\u0660", "prepend"), ("\u0967", "append"), ("é", "append")]:
        out.append(dict(kind="run", seed=9, honest=False,
                        script=H + [["send", 0, "aa01"], ["pump", 8], ["relabel", 1, 0, 1, "", sfx, mode], ["s2c", 1],
                                    ["send", 0, "aa02"], ["settle"]]))
        out.append(dict(kind="run", seed=9, honest=False,
                        script=H + [["send", 0, "aa01"], ["send", 0, "aa02"], ["pump", 4], ["c2s", 0], ["c2s", 0], ["c2s", 0],
                                    ["relabel", 1, 0, 1, "", sfx, mode], ["swapmsg", 1, 0, 7], ["settle"]]))
    for sfx in ["é", "\u00e5", "\u0661"]:
        out.append(dict(kind="run", seed=9, honest=False,
                        script=H + [["send", 1, "bb01"], ["send", 1, "bb02"], ["pump", 8], ["relabel", 1, 1, 1, sfx, "", "append"],
                                    ["s2c", 1], ["send", 0, "aa01"], ["settle"]]))
        out.append(dict(kind="run", seed=9, honest=False,
                        script=H + [["pump", 8], ["relabel", 1, 1, 0, sfx, "", "append"], ["s2c", 1], ["settle"]]))
        out.append(dict(kind="run", seed=9, honest=False,
                        script=H + [["send", 0, "aa01"], ["pump", 8], ["relabel", 1, 0, 1, sfx, "", "append"], ["s2c", 1], ["settle"]]))
    # the peer's encrypted version message delivered BEFORE the peer's PAKE message, under a rewritten side label
    # (queued by Order, drained when the PAKE arrives: must be bad -> scared -> WrongPasswordError), and the honest
    # variants of the same schedule (early but unmodified: delivered; in order with rewritten side: scared)
    for v in (0, 1):
        for mode, sidearg in [("early", 1), ("early", 2), ("early", 7), ("early", None), ("fifo", 1), ("fifo", None)]:
            out.append(dict(kind="run", seed=10, honest=(sidearg is None),
                            script=H + [["hold", v], ["send", 1 - v, "cc01"], ["pump", 10], ["release", v, mode, sidearg],
                                        ["send", v, "dd01"], ["settle"]]))
    # compatibility spellings (NFKC folds them to the ASCII label; at HEAD: UnicodeEncodeError -> closes with error) and,
    # for contrast, spellings nothing folds (case: wrong key -> scared): a client's own version / phase 0 reflected under
    # another spelling of its OWN side before the peer's message of that phase; the peer's phase 0 replayed under another
    # spelling of the phase / of the peer's side; queued frames re-spelled in place — before and after key agreement
    for form in ["fw", "fw1", "math", "sup", "case", "zwj"]:
        for v in (0, 1):
            o = 1 - v
            out.append(dict(kind="run", seed=12, honest=False, deferred=[v],
                            script=H + [["hold", v, "version"], ["pump", 12], ["relabel", v, v, 0, "", "", "append", form, None],
                                        ["s2c", v], ["get", v, "versions", 1], ["release", v, "fifo", None], ["settle"]]))
            out.append(dict(kind="run", seed=12, honest=False, deferred=[v],
                            script=H + [["send", v, "0b0b"], ["pump", 12], ["relabel", v, v, 1, "", "", "append", form, None],
                                        ["s2c", v], ["get", v, "message", 1], ["send", o, "0c0c"], ["settle"]]))
        out.append(dict(kind="run", seed=12, honest=False,
                        script=H + [["send", 0, "aa01"], ["pump", 12], ["relabel", 1, 0, 1, "", "", "append", None, form], ["s2c", 1],
                                    ["send", 0, "aa02"], ["settle"]]))
        out.append(dict(kind="run", seed=12, honest=False,
                        script=H + [["send", 0, "aa01"], ["pump", 12], ["relabel", 1, 0, 1, "", "", "append", form, None], ["s2c", 1],
                                    ["send", 0, "aa02"], ["settle"]]))
        out.append(dict(kind="run", seed=12, honest=False,
                        script=H + [["pump", 3], ["respell", 1, 0, "side", form, "replace"], ["respell", 0, 0, "phase", form, "before"], ["settle"]]))
        out.append(dict(kind="run", seed=12, honest=False,
                        script=H + [["send", 0, "aa01"], ["send", 0, "aa02"], ["pump", 5], ["c2s", 0], ["c2s", 0], ["c2s", 0],
                                    ["respell", 1, 1, "phase", form, "after"], ["respell", 1, 0, "side", form, "before"], ["settle"]]))
    out.append(dict(kind="run", seed=12, honest=False,
                    script=H + [["pump", 12], ["relabel", 1, 0, 0, "", "", "append", None, "roman"], ["s2c", 1], ["settle"]]))
    # boundary-shifting relabels: with two-digit phases the concatenation side+phase is ambiguous — the peer's genuine
    # phase-10 ciphertext as (peer side + "1", phase "0") while the victim has not seen phase 0; the victim's own phase-10
    # ciphertext reflected as (own side + "1", "0"); the other direction (tail of the side onto the phase); dilate-10 split
    # as (side + "dilate-", "10") and (side + "dilate-1", "0").  At HEAD: another label, another key -> scared.
    SENDS = lambda who: [["send", who, "%02x%02x" % (i, 0xa0 + i)] for i in range(11)]
    for v in (0, 1):
        o = 1 - v
        for kk in (1, -1, -2):
            out.append(dict(kind="run", seed=14, honest=False,
                            script=H + [["hold", v, "0"]] + SENDS(o) + [["pump", 36], ["shift", v, o, "10", kk], ["s2c", v],
                                        ["release", v, "fifo", None], ["settle"]]))
        out.append(dict(kind="run", seed=14, honest=False,
                        script=H + [["hold", v, "0"]] + SENDS(v) + [["send", o, "ee"], ["pump", 36], ["shift", v, v, "10", 1], ["s2c", v],
                                    ["release", v, "fifo", None], ["settle"]]))
        for kk in (7, 8):
            out.append(dict(kind="run", seed=14, honest=False,
                            script=H + [["hold", v, "0"], ["send", o, "a0"], ["pump", 14], ["keyholder", v, 0, "dilate-10", "d10d"], ["s2c", v],
                                        ["shift", v, o, "dilate-10", kk], ["s2c", v], ["release", v, "fifo", None], ["settle"]]))
    # the two in-order streams side by side: a key holder's dilate-1 before dilate-0, then application phase 0 (phase 1 not
    # yet sent); application phase 1 parked (phase 0 withheld), then dilate-0; one client's parked phase 1 while the other
    # client's cursor passes 1 (both clients live in one process)
    for v in (0, 1):
        o = 1 - v
        for dfr in ([v], [o]):
            out.append(dict(kind="run", seed=15, honest=False, deferred=dfr,
                            script=H + [["pump", 12], ["keyholder", v, 0, "dilate-1", "d1d1"], ["s2c", v], ["send", o, "a0a0"], ["pump", 6],
                                        ["send", o, "a1a1"], ["pump", 4], ["keyholder", v, 0, "dilate-0", "d0d0"], ["settle"]]))
            out.append(dict(kind="run", seed=15, honest=False, deferred=dfr,
                            script=H + [["hold", v, "0"], ["send", o, "b0b0"], ["send", o, "b1b1"], ["pump", 16],
                                        ["keyholder", v, 0, "dilate-0", "d0d0"], ["s2c", v], ["keyholder", v, 0, "dilate-1", "d1d1"], ["s2c", v],
                                        ["release", v, "fifo", None], ["settle"]]))
            out.append(dict(kind="run", seed=15, honest=False, deferred=dfr,
                            script=H + [["hold", v, "0"], ["send", o, "c0c0"], ["send", o, "c1c1"], ["send", v, "d0d0"], ["send", v, "d1d1"],
                                        ["pump", 20], ["release", v, "fifo", None], ["settle"]]))
    # Deferred API: pipelined get_message() with >= 2 phases already queued / requests before the messages / chained from
    # inside the callback; the peer's version overtaken by its first numbered phase (server delay), then delivered
    for v in (0, 1):
        o = 1 - v
        S3 = H + [["send", o, "c101"], ["send", o, "c202"], ["send", o, "c303"], ["pump", 12]]
        out.append(dict(kind="run", seed=11, honest=True, deferred=[v], script=S3 + [["get", v, "message", 2], ["settle"], ["get", v, "message", 1], ["settle"]]))
        out.append(dict(kind="run", seed=11, honest=True, deferred=[v], script=S3 + [["get", v, "message", 3], ["get", v, "versions", 2], ["get", v, "verifier", 2], ["settle"]]))
        out.append(dict(kind="run", seed=11, honest=True, deferred=[v], script=H + [["get", v, "message", 2], ["get", v, "versions", 1], ["send", o, "c101"], ["send", o, "c202"],
                                                                                   ["send", o, "c303"], ["settle"], ["get", v, "message", 1], ["settle"]]))
        out.append(dict(kind="run", seed=11, honest=True, deferred=[v], script=S3 + [["getchain", v, "message", 2], ["settle"]]))
        out.append(dict(kind="run", seed=11, honest=True, deferred=[0, 1], script=H + [["getchain", v, "message", 3], ["send", o, "c101"], ["pump", 12], ["send", o, "c202"],
                                                                                      ["send", o, "c303"], ["settle"]]))
        out.append(dict(kind="run", seed=11, honest=True, deferred=[v], script=H + [["hold", v, "version"], ["send", o, "c101"], ["pump", 14], ["get", v, "versions", 1],
                                                                                   ["get", v, "message", 1], ["pump", 2], ["release", v, "fifo", None], ["settle"]]))
        out.append(dict(kind="run", seed=11, honest=False, deferred=[v], script=H + [["hold", v, "version"], ["send", o, "c101"], ["pump", 14], ["dupmsg", v, 0],
                                                                                    ["release", v, "fifo", None], ["get", v, "versions", 2], ["settle"]]))
    # delegate API: the peer's numbered phases overtake its version (server delay), then the version arrives, then close
    for v in (0, 1):
        o = 1 - v
        out.append(dict(kind="run", seed=13, honest=True, deferred=[o],
                        script=H + [["hold", v, "version"], ["send", o, "c101"], ["send", o, "c202"], ["pump", 14],
                                    ["release", v, "fifo", None], ["settle"]]))
        out.append(dict(kind="run", seed=13, honest=True, deferred=[o],
                        script=H + [["hold", v, "version"], ["send", o, "c101"], ["pump", 14], ["dropmsg", v, "version"], ["settle"]]))
    # LONG sessions, then replays: more peer phases than any plausible "window of recent phases" a client might keep
    # (70, 140), all delivered; then the server presents the victim's mailbox again — an honest replay on re-open
    # (drop/open) and a verbatim duplicate of the frames still in flight — and the session goes on.  The victim is a
    # delegate-mode application (the Deferred API would hide a second got_versions).
    for nlong, v in ((70, 0), (140, 1)):
        o = 1 - v
        sc = [["open", 0], ["open", 1], ["code", 0], ["code", 1], ["pump", 12]]
        for i in range(nlong):
            sc.append(["send", o, "%04x" % i])
            if i % 10 == 9:
                sc.append(["settle"])
        sc += [["settle"], ["relabel", v, o, 0, "", ""], ["relabel", v, o, 1, "", ""], ["relabel", v, o, 2, "", ""], ["settle"],
               ["send", o, "fffe"], ["settle"],
               ["drop", v], ["open", v], ["settle"], ["send", o, "ffff"], ["send", v, "eeee"], ["pump", 3],
               ["dupmsg", v, 0], ["settle"]]
        out.append(dict(kind="run", seed=17, honest=True, script=sc))
    # input_code: the peer's (or a forged) PAKE arrives before the words
    I = [["open", 0], ["open", 1], ["code", 0], ["nameplate", 1], ["pump", 10]]
    out.append(dict(kind="run", seed=5, honest=True, script=I + [["code", 1], ["send", 0, "01"], ["settle"]]))
    for t in [["fabpake", 1, "stranger", 2], ["inject", 1, 0, "version", "00" * 30], ["reflect", 1, 0, 1, None], ["fabpake", 1, "missing", 0]]:
        out.append(dict(kind="run", seed=6, honest=False, script=[["open", 0], ["open", 1], ["nameplate", 1], ["pump", 6], t, ["pump", 3], ["code", 0], ["pump", 6], ["code", 1], ["settle"]]))
    return out


def cases(rng, tier):
    out = corpus()
    n = 280 if tier == "quick" else 3800
    for _ in range(n):
        out.append(gen_case(rng))
    if tier == "thorough":
        # small-scope exhaustive: every single tamper kind at every pump position of one fixed honest exchange
        H = [["open", 0], ["open", 1], ["code", 0], ["code", 1], ["send", 0, "a0"], ["send", 1, "b0"]]
        ops = [["tamper", 1, 0, "flip", 3], ["tamper", 1, 0, "trunc", 5], ["tamper", 1, 0, "extend", 1], ["tamper", 1, 0, "phase", "1"],
               ["tamper", 1, 0, "side", 1], ["dupmsg", 1, 0], ["replay", 1, 0, "7"], ["reflect", 1, 0, 1, None], ["reflect", 1, 1, 1, None],
               ["reflect", 1, 2, 1, None], ["fabpake", 1, "stranger", 0], ["fabpake", 1, "missing", 0], ["swaplabels", 1, 0, 1]]
        ops = [[t] for t in ops] + [[["drop", 1], ["open", 1]], [["drop", 1], ["open", 1], ["pump", 3], ["dupmsg", 1, 0]],
                                    [["relabel", 1, 0, 1, "", "\u0661", "append"]], [["relabel", 1, 1, 1, "é", "", "append"]],
                                    [["relabel", 1, 0, 0, "é", "", "append"]]]
        for npump in range(0, 14):
            for grp in ops:
                for ci in (0, 1):
                    g2 = []
                    for t in grp:
                        t2 = list(t)
                        if t2[0] == "relabel":
                            t2[2] = ci if t2[2] == t2[1] else 1 - ci
                        if t2[0] != "pump":
                            t2[1] = ci
                        g2.append(t2)
                    out.append(dict(kind="run", seed=7, honest=False,
                                    script=H + [["pump", 1]] * npump + g2 + [["s2c", ci], ["send", 0, "a1"], ["settle"]]))
    return out


def search(rng, seconds, seeds):
    import time
    t0 = time.time()
    for c in seeds:
        yield c, run_case(c)
    for c in corpus():
        yield c, run_case(c)
    while time.time() - t0 < seconds:
        c = gen_case(rng, ntamper=rng.choice([1, 2, 3]))
        yield c, run_case(c)


def shrink(case):
    s = case["script"]
    for i in range(len(s) - 1, -1, -1):
        if s[i][0] in ("open", "code", "nameplate"):
            continue
        c = dict(case)
        c["script"] = s[:i] + s[i + 1:]
        yield c
