"""C16 — the Leader's connection monitor: correspondence + oracle on the real Manager.

World: one real `Manager` (real `TrafficTimer`, `Inbound`, `Outbound`) with `task.Clock` as reactor,
the `Connector` class replaced by a Mock inside this process, and a fake connection object that
records `send_record()` / `disconnect()` and whose transport exercises flow control on the real Outbound.  A scripted peer answers the Pings that really reached
the connection (`rtt`, every k-th dropped, silent from a time on); connection loss, reconnection
and stop are scheduled by the case.  All times are multiples of TICK = 1/8 s (exact in binary
floating point); everything compared is an integer number of ticks.

The random source.  The Manager draws the id of every keep-alive Ping with `os.urandom(4)`.  The harness hands the
Manager module its own `os` (`_Os`, inside this process only) whose `urandom(4)` returns what the CASE says: first the
4-byte values listed in `case["draws"]` (any values, repeats included), then `case["fresh_from"]`, `+1`, `+2`, … modulo
2**32 (skipping values already handed out).  So the 4 bytes are an input like the schedule: boundary values (ff ff ff fd,
ff ff ff ff, 00 00 00 00, 7f ff ff ff, 80 00 00 00), sequences that cross 2**32 or 2**31 in a long session, the same
bytes again after the ping was answered, and the same bytes while that ping is still outstanding.  The model is told the
fixed draws as first-occurrence indices (`rnd k k …`), never the bytes: ids are opaque.  A draw that equals an id still
in `_pings_outstanding` is the one point the property's statement cannot cover on the current tree (`send_ping` asserts,
the expiry callback dies: `WV.Props.C16.duplicate_id_kills_the_monitor`); the real code IS run there and compared with
the model, but the oracle judges the run only up to that draw (tag `id-collision`).
"""
import contextlib
import io
import math
import os as _os
import sys
import time as _time
from unittest import mock

from twisted.internet.task import Clock, Cooperator
from zope.interface import implementer
from twisted.internet.interfaces import ITransport, IConsumer
from twisted.internet.protocol import Protocol, Factory

from wormhole import _interfaces
from wormhole._interfaces import ISubChannel
from wormhole.eventual import EventualQueue
from wormhole._dilation import manager as dm
from wormhole._dilation import connector as dconn
from wormhole._dilation.connection import Ping, Pong, KCM, Open, Data, encode_record, T_PING
from wormhole._dilation.encode import to_be4, from_be4

from ..core import Result
from ..util import automat_state
from ..fakes import ToyNoise

ID = "C16"
PROP_MODULES = ["WV.Props.C16"]
# [deepMgr] translation validation of the Manager / TrafficTimer method bodies (tools/extract.py::extract_pyir_mgr ->
# WV/Gen/PyIRMgr.lean): part of the check as soon as the module is installed (agents/deepMgr_integration.md)
import os as _os_mgr
for _m_mgr in ("PyIRMgr_C17", "PyIRMgr_C16"):
    if _os_mgr.path.exists(_os_mgr.path.join(_os_mgr.path.dirname(_os_mgr.path.dirname(_os_mgr.path.dirname(
            _os_mgr.path.abspath(__file__)))), "lean", "WV", "Props", _m_mgr + ".lean")):
        PROP_MODULES.append("WV.Props." + _m_mgr)
TRUSTED = ["Twisted DelayedCall/Clock semantics (a call runs once now >= its time; delay() adds to the deadline)",
           "os.urandom(4) returns 4 arbitrary bytes (an input of the case; NOT assumed fresh: the theorems that need "
           "'the id drawn is not outstanding' carry it as the hypothesis freshNext, the harness runs the real code at "
           "the excluded point too and stops judging there)",
           "the transport reports connectionLost asynchronously after disconnect() (loss is a separate event)",
           "Connector (mocked): calls connector_connection_made only while the Manager is CONNECTING"]
RULE = ("leader/follower Manager over task.Clock; intervals {0.5, 1, 30} s; peer policies: rtt from a grid around "
        "0/T/2T (before/at/after an expiry), every k-th ping unanswered, silent from a time on, stale/duplicate/"
        "unknown pongs; the 4 random bytes of every ping id fixed by the case: boundary values, sequences crossing 2**32 / 2**31, "
        "repeats of answered ids, duplicates of outstanding ids (excluded point, compared but not judged), long sessions "
        "(hundreds of answered pings, then silence); transport flow control (the real Outbound.pauseProducing/resumeProducing called as the connection's "
        "transport would) before/at/after expiries, for part of an interval, across loss/reconnect; loss, reconnect and stop "
        "at arbitrary ticks; thorough adds exhaustive small schedules "
        "(T=4 ticks, every rtt x silence point x loss/stop point); non-trivial = at least one timer expiry observed; "
        "distinct = distinct canonical traces")

TICK = 0.125
MAX_OPS = 1500                 # operation lines per case
INTERVALS = [4, 8, 240]        # 0.5 s, 1 s, 30 s
FRESH_FROM = 0x5a000000        # where the random source starts when the case does not say
BOUNDARY_IDS = (b"\x00\x00\x00\x00", b"\xff\xff\xff\xff", b"\x7f\xff\xff\xff", b"\x80\x00\x00\x00")


class _Rand:
    """the case's random source: what `os.urandom(4)` returns inside wormhole._dilation.manager"""

    def __init__(self, draws, fresh_from):
        self.script = [bytes.fromhex(x) for x in draws]
        self.nscript = len(self.script)
        self.fresh = fresh_from % (1 << 32)
        self.given = []          # every 4-byte value handed out, in order
        self.manager = None
        self.collisions = []     # (index of the draw, value): equal to an id outstanding at that moment
        self.repeats = 0         # values handed out again while NOT outstanding
        self.wrapped = False

    def canonical(self):
        """the fixed draws as first-occurrence indices (what the model is told)"""
        seen, out = [], []
        for v in self.script:
            if v not in seen:
                seen.append(v)
            out.append(seen.index(v))
        return out

    def urandom(self, n):
        if n != 4:
            return _os.urandom(n)
        if self.script:
            v = self.script.pop(0)
        else:
            used = set(self.given)
            while True:
                v = self.fresh.to_bytes(4, "big")
                self.fresh = (self.fresh + 1) % (1 << 32)
                if self.fresh == 0:
                    self.wrapped = True
                if v not in used:
                    break
        m = self.manager
        if m is not None and v in m._pings_outstanding:
            self.collisions.append((len(self.given), v))
        elif v in self.given:
            self.repeats += 1
        self.given.append(v)
        return v


class _Os:
    """`os` as wormhole._dilation.manager sees it during a case"""

    def __init__(self, rand):
        self._rand = rand

    def urandom(self, n):
        return self._rand.urandom(n)

    def __getattr__(self, name):
        return getattr(_os, name)


class OffGrid(Exception):
    pass


def to_ticks(x):
    q = x / TICK
    r = round(q)
    if abs(q - r) > 1e-6:
        raise OffGrid(x)
    return int(r)


@implementer(_interfaces.ISend)
class _Send:
    def __init__(self):
        self.sent = []

    def send(self, phase, pt):
        self.sent.append((phase, pt))


class _Transport:
    def registerProducer(self, p, streaming):
        pass

    def unregisterProducer(self):
        pass


class _Conn:
    """stand-in for the selected DilatedConnectionProtocol"""

    def __init__(self, world, cid):
        self.world = world
        self.cid = cid
        self.transport = _Transport()
        self.read_paused = False     # Inbound told us pauseProducing(): nothing is delivered until resumeProducing()

    def send_record(self, r):
        self.world.on_record(self, r)

    def disconnect(self):
        caller = sys._getframe(1).f_code.co_name
        self.world.on_disconnect(self, caller)

    def pauseProducing(self):
        self.read_paused = True

    def resumeProducing(self):
        self.read_paused = False


@implementer(ISubChannel)
class _Sub:
    """a subchannel as Inbound sees it in its flow-control calls: a token"""

    def __init__(self, k):
        self.k = k


class _BoomProtocol(Protocol):
    """an application protocol whose handler has a bug"""

    def dataReceived(self, data):
        raise RuntimeError("application handler failed")


class _BoomFactory(Factory):
    protocol = _BoomProtocol


@implementer(ITransport, IConsumer)
class _RTransport:
    """in-memory transport of a REAL DilatedConnectionProtocol (real world): records what the protocol writes,
    `loseConnection()` only notes the request — the case decides when the close is reported (`connectionLost`)"""

    def __init__(self, world, cid):
        self.world = world
        self.cid = cid
        self.closed = False          # connectionLost() has been delivered to the protocol
        self.buf = b""
        self.frames = 0
        self.peer = ToyNoise()       # the follower's end of the Noise session
        self.producer = None
        self.read_paused = False

    def write(self, data):
        if self.closed:
            return
        self.buf += bytes(data)
        # prologue first ("...\n\n"), then length-prefixed frames; frame 0 is the Noise handshake
        if self.frames == 0 and b"\n\n" in self.buf and not self.buf.startswith(b"\x00"):
            i = self.buf.index(b"\n\n") + 2
            self.buf = self.buf[i:]
            self.frames = 1
        while self.frames >= 1 and len(self.buf) >= 4:
            n = from_be4(self.buf[:4])
            if len(self.buf) < 4 + n:
                break
            body, self.buf = self.buf[4:4 + n], self.buf[4 + n:]
            self.frames += 1
            if self.frames > 2:      # after the handshake frame: records under the toy AEAD (16-byte tag)
                rec = body[:-16]
                if rec[:1] == T_PING:
                    self.world.on_ping(self.cid, rec[1:5])

    def writeSequence(self, seq):
        for x in seq:
            self.write(x)

    def loseConnection(self):
        f = sys._getframe(1)
        caller = sys._getframe(2).f_code.co_name if f.f_code.co_name == "disconnect" else f.f_code.co_name
        self.world.on_disconnect(self, caller)

    def registerProducer(self, p, streaming):
        self.producer = p

    def unregisterProducer(self):
        self.producer = None

    def pauseProducing(self):
        self.read_paused = True

    def resumeProducing(self):
        self.read_paused = False

    def stopProducing(self):
        pass

    def getPeer(self):
        return "peer"

    def getHost(self):
        return "host"


def _frame(b):
    return to_be4(len(b)) + b


class World:
    def __init__(self, T, leader, real=False, rand=None):
        self.T = T
        self.rand = rand or _Rand([], FRESH_FROM)
        self.leader = leader
        self.real = real             # real Connector + DilatedConnectionProtocol instead of stand-ins
        self.closed = set()          # connections whose transport close was delivered (connectionLost)
        self.protos = {}             # cid -> real protocol
        self.clock = Clock()
        self.eq = EventualQueue(self.clock)
        self.send = _Send()
        my, their = ("ff" * 8, "00" * 8) if leader else ("00" * 8, "ff" * 8)
        self.their = their
        self.m = dm.Manager(self.send, my, None, self.clock, self.eq, Cooperator(scheduler=self.eq.eventually),
                            ["ged"], T * TICK, {}, no_listen=True)
        self.m.got_dilation_key(b"k" * 32)
        self.rand.manager = self.m
        self.conns = []
        self.ids = []            # canonical index -> real ping id (first occurrence)
        self.insts = []          # every registration of a ping in _pings_outstanding, in order: (canonical index, tick)
        self.live = {}           # ping id -> the dict value of the registration we know (identity tells a re-registration)
        self.wire = []           # (cid, idx, t)
        self.wire_k = []         # for each entry of `wire`: the registration (index into insts) it belongs to, or -1
        self.drops = []          # (cid, t) disconnect() from _signal_reconnect
        self.abandons = []       # (cid, t) disconnect() from abandon_connection
        self.other_disc = []     # disconnect() from anywhere else
        self.discs = []          # every disconnect(), in call order
        self.discd = set()       # connections that were asked to disconnect
        self.reported = set()    # connections whose transport close has been reported to the Manager
        self.stop_called = False
        self.offgrid = False
        self.subs = {}           # k -> subchannel token registered with the real Inbound
        self.cons = set()        # consumers (k) that are paused right now, as the harness knows it
        self.peer_seq = 0        # seqnum of the peer's next Open/Data
        self.next_scid = 2
        if real:
            self.m._subprotocol_factories.register("boom", _BoomFactory())

    # -- observation
    def now(self):
        try:
            return to_ticks(self.clock.seconds())
        except OffGrid:      # only a changed timer arithmetic can take the clock off the tick grid
            self.offgrid = True
            return int(math.floor(self.clock.seconds() / TICK + 1e-9))

    def on_record(self, conn, r):
        if isinstance(r, Ping):
            self.on_ping(conn.cid, r.ping_id)

    def on_ping(self, cid, ping_id):
        self.scan_pings()
        idx = self.ids.index(ping_id) if ping_id in self.ids else -1
        self.wire.append((cid, idx, self.now()))
        self.wire_k.append(self.latest_inst(idx))

    def on_disconnect(self, conn, caller):
        rec = (conn.cid, self.now())
        self.discs.append(rec)
        self.discd.add(conn.cid)
        if caller == "_signal_reconnect":
            self.drops.append(rec)
        elif caller == "abandon_connection":
            self.abandons.append(rec)
        elif self.real:
            pass     # the Connector closing losers / a protocol error: not the monitor's doing
        else:
            self.other_disc.append(rec + (caller,))

    def scan_pings(self):
        out = self.m._pings_outstanding
        for k in [k for k in self.live if k not in out]:
            del self.live[k]
        for k, v in out.items():
            if k not in self.ids:
                self.ids.append(k)
            if self.live.get(k) is not v:        # a new registration (the same 4 bytes may be registered again later)
                self.live[k] = v
                self.insts.append((self.ids.index(k), self.now()))

    @property
    def sent_at(self):
        return [t for _, t in self.insts]

    def latest_inst(self, idx):
        for j in range(len(self.insts) - 1, -1, -1):
            if self.insts[j][0] == idx:
                return j
        return -1

    def timers(self):
        """pending DelayedCalls other than the eventual queue's zero-delay turn"""
        return [c for c in self.clock.getDelayedCalls() if getattr(c.func, "__name__", "") != "_turn"]

    def read_paused(self):
        c = self.m._connection
        if c is None:
            return False
        return self.conns[c.cid].read_paused if self.real else c.read_paused

    def sub(self, k):
        if k not in self.subs:
            self.subs[k] = _Sub(k)
            self.m._inbound.subchannel_local_open(1000 + k, self.subs[k])
        return self.subs[k]

    def bad_segment(self, idx):
        """one TCP segment: a Data record for a subchannel whose application handler raises, then the Pong.  What the
        reactor does with an exception out of dataReceived is to drop the transport."""
        p = self.m._connection
        t = self.conns[p.cid]
        scid = self.next_scid
        self.next_scid += 2
        p.dataReceived(_frame(t.peer.encrypt(encode_record(Open(self.peer_seq, scid, "boom")))))
        self.peer_seq += 1
        pid = self.ids[idx]
        seg = _frame(t.peer.encrypt(encode_record(Data(self.peer_seq, scid, b"x")))) + \
            _frame(t.peer.encrypt(encode_record(Pong(pid))))
        self.peer_seq += 1
        try:
            p.dataReceived(seg)
        except Exception:
            self.close_transport(p.cid, flush=False)

    def cid_of(self, c):
        if c is None:
            return "-"
        return str(getattr(c, "cid", "?"))

    def summary(self):
        m = self.m
        self.scan_pings()
        role = "-" if m._my_role is None else ("L" if m._my_role is dm.LEADER else "F")
        tt = automat_state(m._traffic) if m._traffic is not None else "-"
        try:
            if m._timer is None:
                timer = "-"
            elif not m._timer.active():
                timer = "dead"     # the attribute holds a DelayedCall that already ran or was cancelled
            else:
                timer = str(to_ticks(m._timer.getTime()))
        except OffGrid:
            self.offgrid = True
            timer = "offgrid:%r" % m._timer.getTime()
        pings = ",".join(str(self.ids.index(k)) for k in m._pings_outstanding)
        wire = ";".join(f"{c}:{i}@{t}" for c, i, t in self.wire[-4:])
        drops = ";".join(f"{c}@{t}" for c, t in self.drops)
        ab = ";".join(f"{c}@{t}" for c, t in self.abandons)
        return (f"t={self.now()} q={len(self.rand.script)} M={automat_state(m)} role={role} TT={tt} timer={timer} conn={self.cid_of(m._connection)} "
                f"out={self.cid_of(m._outbound._connection)} paused={'true' if m._outbound._paused else 'false'} "
                f"rp={'true' if self.read_paused() else 'false'} cons=[{','.join(str(k) for k in sorted(getattr(x, 'k', -1) for x in m._inbound._paused_subchannels))}] pings=[{pings}] nwire={len(self.wire)} wire=[{wire}] "
                f"drops=[{drops}] abandons=[{ab}]")

    # -- operations (each returns the exception class name or None)
    def call(self, f):
        buf = io.StringIO()
        try:
            with contextlib.redirect_stdout(buf):
                f()
                self.eq.flush_sync()
            return None
        except Exception as e:   # the real code raised: that is a result, not a harness failure
            return type(e).__name__

    def real_made(self, variant):
        """what the network + the follower do to give the Leader's real Connector a connection: TCP connect, prologue,
        Noise handshake, KCM; the Connector then selects it one eventual turn later.  `variant`: None, "dead" (the
        transport closes in that very turn, between KCM and select()), "prekcm" (it closes before the KCM)."""
        m = self.m
        cid = len(self.conns)
        connector = m._connector
        f = dconn.OutboundConnectionFactory(connector, None, "conn%d" % cid)
        p = f.buildProtocol(None)
        if variant == "prekcm":
            cid = -1                 # never offered to the Manager: not numbered
        t = _RTransport(self, cid)
        p.cid = cid
        if cid >= 0:
            self.conns.append(t)
            self.protos[cid] = p
        p.makeConnection(t)
        # Connector._connect's `_connected` callback
        connector._pending_connections.add(p)
        p.when_disconnected().addCallback(connector._pending_connections.discard)
        p.dataReceived(dconn.PROLOGUE_FOLLOWER + _frame(t.peer.write_message()))
        if variant == "prekcm":
            t.closed = True
            p.connectionLost(None)
            return
        p.dataReceived(_frame(t.peer.encrypt(encode_record(KCM()))))
        if variant == "dead":
            self.close_transport(cid, flush=False)

    def close_transport(self, cid, flush=True):
        t = self.conns[cid]
        if t.closed:
            return
        t.closed = True
        self.closed.add(cid)
        self.protos[cid].connectionLost(None)
        if flush:
            self.eq.flush_sync()

    def op(self, o, closed=None):
        m = self.m
        k = o[0]
        if self.real:
            if k == "made":
                return self.call(lambda: self.real_made(o[1] if len(o) > 1 else None))
            if k == "lost":
                cid = closed if closed is not None else getattr(m._connection, "cid", None)
                if cid is None:
                    return None
                return self.call(lambda: self.close_transport(cid))
            if k == "pong":
                idx = o[1]
                pid = self.ids[idx] if idx < len(self.ids) else b"\xfe\xfd" + (idx % 65536).to_bytes(2, "big")
                p = m._connection
                t = self.conns[p.cid]
                return self.call(lambda: p.dataReceived(_frame(t.peer.encrypt(encode_record(Pong(pid))))))
        if k == "start":
            # got_wormhole_versions() is the caller of start() in the real flow
            return self.call(lambda: m.start())
        if k == "please":
            return self.call(lambda: m.rx_PLEASE({"side": self.their}))
        if k == "made":
            c = _Conn(self, len(self.conns))
            self.conns.append(c)
            return self.call(lambda: m.connector_connection_made(c))
        if k == "lost":
            if closed is not None:
                self.closed.add(closed)
            elif m._connection is not None:
                self.closed.add(getattr(m._connection, "cid", -1))
            return self.call(lambda: m.connector_connection_lost())
        if k == "stop":
            self.stop_called = True
            return self.call(lambda: m.stop())
        if k == "reconnecting":
            return self.call(lambda: m.rx_RECONNECTING())
        if k == "reconnect":
            return self.call(lambda: m.rx_RECONNECT())
        if k == "cpause":
            self.cons.add(o[1])
            sc = self.sub(o[1])
            return self.call(lambda: m._inbound.subchannel_pauseProducing(sc))
        if k == "cresume":
            self.cons.discard(o[1])
            sc = self.sub(o[1])
            return self.call(lambda: m._inbound.subchannel_resumeProducing(sc))
        if k == "cstop":
            self.cons.discard(o[1])
            sc = self.sub(o[1])
            return self.call(lambda: m._inbound.subchannel_stopProducing(sc))
        if k == "cclose":
            self.cons.discard(o[1])
            sc = self.sub(o[1])
            del self.subs[o[1]]
            return self.call(lambda: m._inbound.subchannel_closed(1000 + o[1], sc))
        if k == "badseg":
            return self.call(lambda: self.bad_segment(o[1]))
        if k == "pause":
            # what the connection's transport does when its send buffer is full (IPushProducer)
            return self.call(lambda: m._outbound.pauseProducing())
        if k == "resume":
            return self.call(lambda: m._outbound.resumeProducing())
        if k == "pong":
            idx = o[1]
            pid = self.ids[idx] if idx < len(self.ids) else b"\xfe\xfd" + (idx % 65536).to_bytes(2, "big")
            return self.call(lambda: m.got_record(Pong(pid)))
        raise ValueError(o)

    def next_deadline(self):
        ts = [c.getTime() for c in self.timers()]
        return min(ts) if ts else None

    def advance_ticks(self, n):
        """advance by n ticks, one DelayedCall deadline at a time (what a reactor does)"""
        target = self.clock.seconds() + n * TICK
        err = None
        while True:
            d = self.next_deadline()
            if d is None or d > target:
                break
            step = max(0.0, d - self.clock.seconds())
            # an exception from a timer callback is logged by a reactor, which then goes on
            err = self.call(lambda: self.clock.advance(step)) or err
        rest = target - self.clock.seconds()
        if rest > 0:
            err = self.call(lambda: self.clock.advance(rest)) or err
        return err


# ---------------------------------------------------------------------------
# running a case

def run_case(case):
    T = case["T"]
    leader = case["leader"]
    rand = _Rand(case.get("draws") or [], case.get("fresh_from", FRESH_FROM))
    # the Manager module's `os` for the duration of the case: its urandom(4) is the case's random source
    with mock.patch.object(dm, "os", _Os(rand)):
        if case.get("world") == "real":
            # REAL Connector + DilatedConnectionProtocol (+ _Framer/_Record) under the real Manager; only Noise is the toy AEAD
            with mock.patch.object(dconn, "build_noise", ToyNoise):
                return _run(case, T, leader, rand, real=True)
        with mock.patch.object(dm, "Connector", mock.Mock()):
            return _run(case, T, leader, rand)


def _run(case, T, leader, rand, real=False):
    canon = rand.canonical()
    w = World(T, leader, real=real, rand=rand)
    lines, exp = [f"cfg {T}"], ["ok"]
    tags = [f"T={T}", "leader" if leader else "follower", "world:real" if real else "world:stand-in"]
    seen_coll = [0]
    events = []          # oracle's view of the run: (kind, time, data)
    illegal = [None]     # first op the environment was not entitled to
    raised = []          # exceptions out of legal operations
    before = [(None, 0)]  # (connection in use, pings registered) just before the current operation
    unwritten = []       # pings generated while a connection was in use that never reached its send_record
    pending = []         # scheduled harness events: [time, seq, op]
    seq = [0]
    seen_wire = [0]
    seen_disc = [0]
    seen_reconnect = [0]
    nmade = [0]
    nbad = [0]
    held = []            # Pongs waiting in the socket buffer of a read-paused connection
    at_socket = {}       # ping registration -> tick its Pong reached the host while the connection was paused for no consumer
    expiries = [0]
    paused_expiry = [0]
    late_expiry = [0]

    def record(opline, err, kind, data=None, legal_now=True):
        if len(rand.collisions) > seen_coll[0]:
            # the random source returned the id of a ping that is still outstanding: the excluded point.  The real code
            # is compared with the model here and afterwards, but the property is judged only up to this operation.
            seen_coll[0] = len(rand.collisions)
            if illegal[0] is None:
                illegal[0] = (opline, "id-collision")
                tags.append("id-collision")
            legal_now = False
        lines.append(opline)
        s = w.summary()
        exp.append((err + " " if err else "") + s)
        if err:
            tags.append(("timer-raised:" if kind in ("adv", "stall") else "raised:") + err)
            if legal_now and illegal[0] is None:
                raised.append((opline, w.now(), err))
        w.scan_pings()
        cid0, n0 = before[0]
        if cid0 is not None and legal_now and illegal[0] is None:
            for j in range(n0, len(w.insts)):
                if not any(c == cid0 and k == j for (c, _, _), k in zip(w.wire, w.wire_k)):
                    unwritten.append((w.insts[j][0], w.now(), cid0, opline))
        # the oracle judges the run up to (not including) the first illegal operation
        events.append((kind, w.now(), data, not (legal_now and illegal[0] is None), snapshot()))

    def snapshot():
        m = w.m
        return dict(conn=None if m._connection is None else getattr(m._connection, "cid", -1),
                    timer=None if (m._timer is None or not m._timer.active()) else m._timer.getTime(),
                    clock_timers=[c.getTime() for c in w.timers()],
                    state=automat_state(m), npings=len(w.insts), stop=w.stop_called, ndrops=len(w.drops),
                    dead=(m._connection is not None and getattr(m._connection, "cid", -1) in w.closed),
                    rp=w.read_paused(), cons=sorted(w.cons),
                    tt=automat_state(m._traffic) if m._traffic is not None else None)

    def is_legal(o):
        """may the environment do this now?  (`WV.C16.legal`, plus: only a Follower receives
        RECONNECT, only a Leader receives RECONNECTING)"""
        st = automat_state(w.m)
        k = o[0]
        if k == "start":
            return st == "WAITING"
        if k == "please":
            return st == "WANTING"
        if k == "made":
            return st == "CONNECTING"
        if k == "lost":
            return st in ("CONNECTED", "STOPPING") or (st == "ABANDONING" and not leader)
        if k == "stop":
            return st not in ("STOPPING", "STOPPED")
        if k == "reconnecting":
            return st == "FLUSHING" and leader
        if k == "reconnect":
            return st in ("CONNECTED", "CONNECTING", "LONELY") and not leader
        if k in ("pong", "badseg"):
            return (w.m._connection is not None and getattr(w.m._connection, "cid", -1) not in w.closed
                    and not w.read_paused() and (k == "pong" or real))
        if k in ("pause", "resume"):
            return w.m._connection is not None and getattr(w.m._connection, "cid", -1) not in w.closed
        return True

    def conn_now():
        c = w.m._connection
        return None if c is None else getattr(c, "cid", -1)

    def do(o, closed=None):
        """`closed`: for "lost", the connection whose transport really closed (the environment owes that report exactly
        once per connection, whatever the Manager thinks it is using by then)"""
        w.scan_pings()
        before[0] = (conn_now(), len(w.insts))
        if o[0] == "lost":
            if closed is None:
                closed = conn_now()
            if closed is not None:
                w.reported.add(closed)
        if illegal[0] is None and not is_legal(o) and not (o[0] == "lost" and closed is not None and closed in w.discd):
            illegal[0] = (" ".join(str(x) for x in o), "illegal")
            tags.append("illegal:" + o[0])
        legal_now = illegal[0] is None
        data = o[1] if len(o) > 1 else None
        if o[0] == "lost":
            data = dict(closed=closed, using=before[0][0])
        if o[0] in ("pong", "badseg"):
            w.scan_pings()
            data = (o[1], o[1] < len(w.ids) and w.ids[o[1]] in w.m._pings_outstanding, w.latest_inst(o[1]))
        if o[0] == "badseg" and legal_now and conn_now() is not None:
            w.reported.add(conn_now())     # at HEAD the reactor drops the transport: its close is reported here
        err = w.op(o, closed=closed)
        kind = o[0]
        line = f"please {1 if leader else 0}" if o[0] == "please" else " ".join(str(x) for x in o)
        if o[0] == "badseg":
            line = "badseg"
        if o[0] == "made" and len(o) > 1:
            if o[1] == "prekcm":
                return               # a connection that died before its KCM never reaches the Connector: nothing to compare
            if o[1] == "dead":
                # selected and lost within one flush of the eventual queue: the model does `made` then `lost`
                line, kind = "made+lost", "made+lost"
                w.reported.add(len(w.conns) - 1)
            else:
                line = "made"
        record(line, err, kind, data, legal_now)

    def adv(n):
        """advance n ticks, one line per stretch that ends at a timer deadline"""
        while n > 0:
            d = w.next_deadline()
            k = n
            if d is not None:
                try:
                    dt = to_ticks(d) - w.now()
                except OffGrid:
                    w.offgrid = True
                    dt = int(math.ceil((d - w.clock.seconds()) / TICK - 1e-9))
                if 0 < dt < n:
                    k = dt
            tb = [c.getTime() for c in w.timers()]
            w.scan_pings()
            before[0] = (conn_now(), len(w.insts))
            was_paused = w.m._outbound._paused and w.m._connection is not None
            err = w.advance_ticks(k)
            fired = [t for t in tb if t <= w.clock.seconds() + 1e-9]
            if fired:
                expiries[0] += len(fired)
                if was_paused:
                    paused_expiry[0] += 1
            record(f"adv {k}", err, "adv", dict(fired=fired), illegal[0] is None)
            n -= k

    def stall(n):
        """a reactor stall: the clock jumps n ticks in ONE step (Clock.advance), so a timer that falls due inside
        runs late, with reactor.seconds() already at the late time; whatever arrived meanwhile is read afterwards"""
        tb = [c.getTime() for c in w.timers()]
        t0 = w.now()
        w.scan_pings()
        before[0] = (conn_now(), len(w.insts))
        err = w.call(lambda: w.clock.advance(n * TICK))
        fired = [t for t in tb if t <= w.clock.seconds() + 1e-9]
        if fired:
            expiries[0] += len(fired)
            if any(t < w.clock.seconds() - 1e-9 for t in fired):
                late_expiry[0] += 1
        record(f"stall {n}", err, "stall", dict(fired=fired, frm=t0), illegal[0] is None)

    def schedule(t, o):
        seq[0] += 1
        pending.append([t, seq[0], o])

    def release_held():
        cur = w.m._connection
        keep = [o for o in held if cur is not None and getattr(cur, "cid", None) == o[2] and o[2] not in w.closed]
        held[:] = keep
        while held and not w.read_paused() and w.m._connection is not None:
            o = held.pop(0)
            do(["pong", o[1]])

    def react(policy, seg_start):
        """the scripted peer / network: look at what the Manager just did"""
        release_held()
        while seen_wire[0] < len(w.wire):
            cid, idx, t = w.wire[seen_wire[0]]
            seen_wire[0] += 1
            if policy is None or idx < 0:
                continue
            nth = seen_wire[0]
            silent = policy.get("silent_from")
            if policy.get("drop_every") and nth % policy["drop_every"] == 0:
                continue
            rtts = policy.get("rtts") or [policy.get("rtt", 0)]
            rtt = rtts[(nth - 1) % len(rtts)]
            if rtt is None:
                continue
            due = t + rtt
            if silent is not None and due >= seg_start + silent:
                continue
            if policy.get("silent_until") is not None and due < seg_start + policy["silent_until"]:
                continue
            schedule(due, ["pong", idx, cid])
        while seen_disc[0] < len(w.discs):
            cid, t = w.discs[seen_disc[0]]
            seen_disc[0] += 1
            if policy is None or policy.get("loss_delay") is None:
                continue
            schedule(t + policy["loss_delay"], ["lost", cid])
        # the peer answers every `reconnect` it gets through the mailbox with `reconnecting` and a new connection
        nrec = sum(1 for ph, pt in w.send.sent if b'"reconnect"' in pt)
        while seen_reconnect[0] < nrec:
            seen_reconnect[0] += 1
            if policy is not None and policy.get("reconnect_delay") is not None and leader and not w.stop_called:
                schedule(w.now() + policy["reconnect_delay"], ["remake"])

    def run_segment(duration, policy):
        seg_start = w.now()
        end = seg_start + duration
        for a, n in (policy or {}).get("stalls") or []:
            schedule(seg_start + a, ["stall", n])
        for a, d in (policy or {}).get("pauses") or []:
            schedule(seg_start + a, ["pause"])
            schedule(seg_start + a + d, ["resume"])
        react(policy, seg_start)
        while True:
            if len(lines) > MAX_OPS:     # e.g. a zero-rtt ping storm in a changed tree: stop, judge what was seen
                if "op-cap" not in tags:
                    tags.append("op-cap")
                return
            pending.sort()
            nxt = pending[0] if pending and pending[0][0] <= end else None
            stop_at = nxt[0] if nxt else end
            if stop_at > w.now():
                # go there, but stop at every timer deadline to let the peer react
                d = w.next_deadline()
                try:
                    dl = to_ticks(d) if d is not None else None
                except OffGrid:
                    w.offgrid = True
                    dl = int(math.ceil(d / TICK - 1e-9))
                if dl is not None and w.now() < dl < stop_at:
                    adv(dl - w.now())
                else:
                    adv(stop_at - w.now())
                react(policy, seg_start)
                continue
            if nxt is None:
                return
            pending.pop(0)
            o = nxt[2]
            if o[0] == "pong":
                cur = w.m._connection
                if cur is None or getattr(cur, "cid", None) != o[2] or o[2] in w.closed:
                    continue     # travelled on a connection that is gone
                if w.read_paused():
                    # the Pong has reached the Leader's host but the paused transport does not read it.  If no consumer
                    # is paused the pause is not the application's doing: the peer HAS answered.
                    if not w.cons and w.latest_inst(o[1]) not in at_socket:
                        at_socket[w.latest_inst(o[1])] = w.now()
                    held.append(o)
                    continue
                nbad[0] += 1
                if real and policy and policy.get("bad_every") and nbad[0] % policy["bad_every"] == 0 \
                        and o[1] < len(w.ids) and is_legal(["badseg", o[1]]):
                    do(["badseg", o[1]])
                else:
                    do(["pong", o[1]])
            elif o[0] == "lost":
                if o[1] in w.reported or o[1] in w.closed:
                    continue     # that transport's close has been reported already
                do(["lost"], closed=o[1])
            elif o[0] == "stall":
                stall(o[1])
            elif o[0] in ("pause", "resume"):
                if w.m._connection is None:
                    continue     # the transport that would call this is gone
                do([o[0]])
            elif o[0] == "remake":
                if automat_state(w.m) == "FLUSHING":
                    do(["reconnecting"])
                    vs = policy.get("made_variants") if real else None
                    while True:
                        v = vs[nmade[0] % len(vs)] if vs else None
                        nmade[0] += 1
                        do(["made"] if v is None else ["made", v])
                        if v != "prekcm":
                            break
            react(policy, seg_start)

    if canon:
        # what the next calls of os.urandom(4) will return, as first-occurrence indices (the model never sees the bytes)
        record("rnd " + " ".join(str(k) for k in canon), None, "rnd")
        tags.append("draws:fixed")
    for seg in case["script"]:
        k = seg[0]
        if k == "run":
            run_segment(seg[1], seg[2])
        elif k == "adv":
            adv(seg[1])
        elif k == "stall":
            stall(seg[1])
        elif k == "lost":
            if real and conn_now() is None:
                continue         # real world: there is no transport that could close
            do(["lost"])
            pending[:] = [p for p in pending if p[2][0] not in ("pong", "lost", "pause", "resume")]
        else:
            do(seg)
        react(None, w.now())
        if len(lines) > MAX_OPS:
            break

    if w.offgrid:
        tags.append("offgrid")
    if w.drops:
        tags.append("monitor-drop")
    if len(w.conns) > 1:
        tags.append("reconnected")
    if w.stop_called:
        tags.append("stopped")
    if any(e[0] == "pong" and e[2][1] for e in events):
        tags.append("pong-answered")
    if any(e[0] == "pong" and not e[2][1] for e in events):
        tags.append("pong-weird")
    if w.abandons:
        tags.append("abandoned")
    if any(e[0] in ("pause", "resume") for e in events):
        tags.append("flow-control")
    if paused_expiry[0]:
        tags.append("paused-at-expiry")
    if any(e[0] == "stall" for e in events):
        tags.append("stall")
    if late_expiry[0]:
        tags.append("late-expiry")
    if any(v in BOUNDARY_IDS for v in rand.given):
        tags.append("ids:boundary-value")
    if rand.wrapped and any(v == b"\x00\x00\x00\x00" for v in rand.given):
        tags.append("ids:cross-2^32")
    if b"\x7f\xff\xff\xff" in rand.given and b"\x80\x00\x00\x00" in rand.given:
        tags.append("ids:cross-2^31")
    if rand.repeats:
        tags.append("ids:repeat-of-answered")
    if expiries[0] >= 100:
        tags.append("long-session")
    if len(rand.given) != len(w.insts) + len(rand.collisions):
        # at HEAD every draw is one send_ping; anything else means the ids are made differently now
        tags.append("draws!=pings")
    viol = oracle(w, events, T, leader, illegal[0], tags, at_socket)
    for idx, t, cid, opline in unwritten[:1]:
        viol.append(("ping-not-written",
                     f"T={T} ticks: ping #{idx} generated at tick {t} ('{opline}') while connection {cid} was in use was never "
                     f"handed to its send_record (Outbound paused={w.m._outbound._paused}); the peer cannot answer it"))
    for opline, t, err in raised[:1]:
        viol.append(("monitor-raised", f"T={T} ticks: '{opline}' at tick {t} is a legal event in this state but raised {err}"))
    return Result(lines, exp, viol, tags, nontrivial=expiries[0] > 0, info=dict(expiries=expiries[0]))


# ---------------------------------------------------------------------------
# the property, stated over what the real code did

def oracle(w, events, T, leader, illegal, tags, at_socket=None):
    at_socket = at_socket or {}
    """`events` = [(kind, time_ticks, data, err, snapshot-after)] in order.  Only the prefix before
    the first exception is judged (an op that raises is an illegal use by the collaborator)."""
    viol = []
    EPS = 1e-6
    Ts = T * TICK

    def add(sig, msg):
        if not any(s == sig for s, _ in viol):
            viol.append((sig, msg))

    legal = []
    for ev in events:
        if ev[3]:
            break
        legal.append(ev)

    # ---- lifecycle, after every legal op
    prev_npings = 0
    for kind, t, data, err, snap in legal:
        pend = list(snap["clock_timers"])
        if snap["timer"] is not None and snap["timer"] not in pend:
            pend.append(snap["timer"])
        if pend and snap["conn"] is None:
            add("timer-without-connection", f"after '{kind}' at tick {t}: no connection in use but a timer is pending for {pend} s")
        if pend and snap["stop"]:
            add("timer-after-stop", f"after '{kind}' at tick {t}: stop() was called but a timer is pending for {pend} s")
        if snap.get("rp") and not snap.get("cons"):
            add("read-paused-without-consumer",
                f"T={T} ticks: after '{kind}' at tick {t} connection {snap['conn']} is read-paused although no subchannel consumer "
                f"is paused (Inbound still lists {sorted(getattr(x, 'k', -1) for x in w.m._inbound._paused_subchannels)}): "
                f"no Pong can be read, the monitor will drop a peer that answers every ping")
        if snap.get("dead"):
            dropped_it = any(c == snap["conn"] for c, _ in w.drops)
            add("no-new-generation" if dropped_it else "dead-connection-in-use",
                f"T={T} ticks: after '{kind}' at tick {t} the Manager is {snap['state']} and still uses connection {snap['conn']}, "
                f"whose transport has closed: the loss was never reported, so "
                + ("the disconnect() at the second expiry changes nothing and no `reconnect` is ever sent"
                   if dropped_it else "monitoring goes on against a dead connection and no new generation can start"))
        if not leader and (snap["npings"] or pend or snap["ndrops"]):
            add("follower-monitors", f"T={T} ticks: after '{kind}' at tick {t} the follower has registered {snap['npings']} pings, "
                                     f"timers pending for {pend} s, monitor disconnects {w.drops[:snap['ndrops']]}")
        if kind == "made" and leader and not snap["stop"]:
            want = t * TICK + Ts
            if not any(abs(x - want) < EPS for x in pend):
                add("monitor-not-restarted", f"connection made at tick {t}: no timer for {want} s (pending {pend})")
            if snap["npings"] != prev_npings + 1:
                add("monitor-not-restarted", f"connection made at tick {t}: {snap['npings'] - prev_npings} pings registered, expected 1")
        if kind == "lost" and data and data["closed"] is not None and data["using"] is not None \
                and data["closed"] != data["using"] and snap["conn"] != data["using"]:
            add("replaced-without-loss",
                f"T={T} ticks: at tick {t} the transport of the OLD connection {data['closed']} reported its close while connection "
                f"{data['using']} was in use; the Manager stopped using connection {data['using']} (state {snap['state']}), "
                f"whose transport is open and whose peer may be answering every ping")
        if kind == "lost" and data and data["closed"] != data["using"]:
            pass      # a late report of an old connection is not the loss of the one in use
        elif kind == "lost" and leader and not snap["stop"] and snap["state"] != "FLUSHING":
            add("no-new-generation", f"connection lost at tick {t}: Manager is {snap['state']}, not FLUSHING (no RECONNECT sent)")
        prev_npings = snap["npings"]
    if not leader:
        return viol

    # ---- per connection epoch: from a successful `made` to lost / stop / abandon / end of the run
    end_t = legal[-1][1] if legal else 0
    epochs = []
    cur = None
    for kind, t, data, err, snap in legal:
        if kind == "made":
            cur = dict(cid=snap["conn"], start=t, pongs=[], end=None)
            epochs.append(cur)
        elif cur is not None and cur["end"] is None:
            if kind in ("lost", "stop", "reconnect") or (kind == "badseg" and snap["conn"] != cur["cid"]):
                cur["end"] = t
            elif kind in ("pong", "badseg") and data[1] and (kind == "pong" or snap["conn"] == cur["cid"]):
                # (a Pong stranded behind a record whose handler raised has reached the transport but not the monitor)
                if kind == "pong":
                    cur["pongs"].append((t, data[0]))
    answered = {}     # ping registration -> tick its Pong reached the Leader's transport (delivered to dataReceived / got_record)
    for kind, t, data, err, snap in legal:
        if kind in ("pong", "badseg") and data[1]:
            answered[data[2]] = t
    for k, t in at_socket.items():
        answered[k] = min(t, answered.get(k, t))
    for ep in epochs:
        cid = ep["cid"]
        ep_end = ep["end"] if ep["end"] is not None else end_t
        drops = [t for c, t in w.drops if c == cid]
        if any(t for c, t in w.abandons if c == cid and (ep["end"] is None or t < ep["end"])):
            # the Manager itself gave the connection up (cannot happen before `end`, but be safe)
            ep_end = min(ep_end, min(t for c, t in w.abandons if c == cid))
        # (1) never drops a responsive connection: a drop at td needs a Ping that reached this
        #     connection a full interval ago or more and is still unanswered
        for td in drops:
            ok = any(c == cid and st <= td - T and (k not in answered or answered[k] >= td)
                     for (c, idx, st), k in zip(w.wire, w.wire_k))
            if not ok:
                add("dropped-responsive",
                    f"T={T} ticks: connection {cid} dropped at tick {td} although every Ping that reached it by tick {td - T} "
                    f"had been answered (wire={[(i, s) for c, i, s in w.wire if c == cid][-4:]}, answered={ {w.insts[k][0] if 0 <= k < len(w.insts) else k: a for k, a in answered.items()} })")
        # (2) replaces a silent one: after the last pong (or the start) the drop comes no later than
        #     two intervals after the most recent ping sent by then
        #     — each interval counted from when the previous expiry was really handled: an expiry that falls
        #     inside a reactor stall (t0, t1] is handled at t1
        stalls = [(data["frm"], t) for kind, t, data, err, snap in legal if kind == "stall"]

        def handled(x):
            for t0, t1 in stalls:
                if t0 < x <= t1:
                    return t1
            return x
        marks = [ep["start"]] + [t for t, _ in ep["pongs"]]
        first_drop = min(drops) if drops else None
        for i, a in enumerate(marks):
            nxt = marks[i + 1] if i + 1 < len(marks) else ep_end
            if first_drop is not None and first_drop <= a:
                break
            sent = [s for s in w.sent_at if ep["start"] <= s <= a]
            lp = max(sent) if sent else ep["start"]
            deadline = handled(handled(lp + T) + T)
            if nxt >= deadline and (first_drop is None or first_drop > deadline):
                # the connection was still in use and nothing arrived until `deadline` (an event at the
                # very tick of the deadline comes after the timers of that tick)
                add("silent-not-dropped",
                    f"T={T} ticks: connection {cid} silent since tick {a} (last ping sent at tick {lp}); "
                    f"not dropped by tick {deadline} = second expiry after it (first drop: {first_drop}, watched until tick {nxt}, "
                    f"pending timers {[x / TICK for x in (c.getTime() for c in w.timers())]} ticks)")
                break
    if w.other_disc:
        add("unexpected-disconnect", f"disconnect() from {w.other_disc[:3]}")
    return viol


# ---------------------------------------------------------------------------
# cases

SETUP = [["start"], ["please"], ["made"]]


def pol(rtt=0, drop_every=0, silent_from=None, loss_delay=None, reconnect_delay=None, rtts=None, pauses=None, stalls=None, silent_until=None,
        made_variants=None, bad_every=None):
    p = dict(rtt=rtt, drop_every=drop_every, silent_from=silent_from, loss_delay=loss_delay, reconnect_delay=reconnect_delay)
    if rtts is not None:
        p["rtts"] = rtts
    if bad_every is not None:
        p["bad_every"] = bad_every   # real world: every n-th Pong arrives in one segment behind a record whose handler raises
    if made_variants is not None:
        p["made_variants"] = made_variants   # real world: how the peer's next connections fare (None / "dead" / "prekcm")
    if silent_until is not None:
        p["silent_until"] = silent_until   # nothing is answered before this tick of the segment
    if stalls is not None:
        p["stalls"] = stalls      # [[start, length]] ticks from the start of the segment: the reactor is stalled (coarse clock step)
    if pauses is not None:
        p["pauses"] = pauses      # [[start, length]] ticks from the start of the segment: transport flow control
    return p


def corpus():
    out = []
    for T in INTERVALS:
        # F1 witness shape: a peer that answers at once for a while, then goes silent
        out.append(dict(T=T, leader=True, script=SETUP + [["run", 12 * T, pol(rtt=1, silent_from=5 * T)]]))
        out.append(dict(T=T, leader=True, script=SETUP + [["run", 8 * T, pol(rtt=0, silent_from=4 * T + 1)]]))
        # silent from the start; then loss, reconnect, responsive
        out.append(dict(T=T, leader=True, script=SETUP + [["run", 9 * T, pol(rtt=None, loss_delay=1, reconnect_delay=2)]]))
        # answers exactly at / just before / just after the next expiry
        for rtt in (T - 1, T, T + 1, 2 * T - 1, 2 * T):
            out.append(dict(T=T, leader=True, script=SETUP + [["run", 7 * T, pol(rtt=rtt, loss_delay=0, reconnect_delay=0)]]))
        # every 2nd / 3rd ping unanswered
        for k in (2, 3):
            out.append(dict(T=T, leader=True, script=SETUP + [["run", 9 * T, pol(rtt=1, drop_every=k, loss_delay=2, reconnect_delay=1)]]))
        # stop while connected, pong still in flight, then loss
        out.append(dict(T=T, leader=True, script=SETUP + [["run", 2 * T + 1, pol(rtt=3)], ["stop"], ["run", 3 * T, pol(rtt=3)],
                                                           ["lost"], ["adv", 3 * T]]))
        # loss in the middle of an interval, late reconnect
        out.append(dict(T=T, leader=True, script=SETUP + [["run", T + 2, pol(rtt=1)], ["lost"], ["adv", 3 * T], ["reconnecting"],
                                                           ["made"], ["run", 5 * T, pol(rtt=2, silent_from=2 * T)]]))
        # follower: never monitors
        out.append(dict(T=T, leader=False, script=SETUP + [["run", 5 * T, pol(rtt=1)], ["lost"], ["adv", 2 * T], ["reconnect"],
                                                            ["made"], ["adv", 3 * T], ["reconnect"], ["lost"], ["adv", T]]))
        # transport flow control (the send buffer of the connection fills: it pauses the Outbound) around expiries:
        # from just before to just after one, ending exactly at one, starting exactly at one, a whole interval and more,
        # a sliver in mid-interval; the peer answers every ping it receives
        for a, d in ((T - 1, 2), (T - 1, 1), (T, 1), (2 * T - 1, T + 2), (T + 1, 1), (1, 4 * T)):
            out.append(dict(T=T, leader=True, script=SETUP + [["run", 6 * T, pol(rtt=1, pauses=[[a, d]])]]))
        # reactor stalls: an expiry handled late by d (d = 1, < T, = T, > T, several intervals), the peer answers every
        # ping it receives within the interval (rtt 1 and T-1), stalls landing exactly on a deadline, two stalls in a row,
        # a stall that also swallows the answer, a stall during silence, a stall while paused
        for rtt in (1, T - 1):
            for a, n in ((T - 1, 2), (T - 2, T), (T - 1, T + 1), (1, 3 * T), (T - 2, 2), (2 * T - 1, T + 2)):
                out.append(dict(T=T, leader=True, script=SETUP + [["run", 7 * T, pol(rtt=rtt, stalls=[[a, n]])]]))
            out.append(dict(T=T, leader=True, script=SETUP + [["run", 8 * T, pol(rtt=rtt, stalls=[[T - 1, 2], [2 * T, 2], [3 * T + 2, T]])]]))
        out.append(dict(T=T, leader=True, script=SETUP + [["run", 9 * T, pol(rtt=1, silent_from=2 * T, stalls=[[2 * T + 1, T + 1]],
                                                                          loss_delay=1, reconnect_delay=1)]]))
        out.append(dict(T=T, leader=True, script=SETUP + [["run", 6 * T, pol(rtt=1, stalls=[[T - 1, 3]], pauses=[[T - 2, T]])]]))
        out.append(dict(T=T, leader=True, script=SETUP + [["stall", T], ["stall", 0], ["stall", 2 * T], ["lost"], ["stall", 3 * T],
                                                           ["reconnecting"], ["made"], ["stall", T - 1], ["stall", 1], ["stop"],
                                                           ["stall", 2 * T]]))
        out.append(dict(T=T, leader=False, script=SETUP + [["stall", 3 * T], ["adv", 1]]))
        # slow close: the silent connection's transport reports its close long after disconnect() — before, at and after
        # the moment the peer's next connection would be up; the next connection answers every ping
        for ld, rd in ((T, 1), (2 * T + 1, 0), (3 * T, T), (1, 1), (T, T)):
            out.append(dict(T=T, leader=True, script=SETUP + [["run", 9 * T, pol(rtt=1, silent_until=2 * T + 1, loss_delay=ld,
                                                                                  reconnect_delay=rd)]]))
        # paused when the peer goes silent, paused across a monitor drop + loss + reconnect, paused at stop
        out.append(dict(T=T, leader=True, script=SETUP + [["run", 9 * T, pol(rtt=1, silent_from=3 * T, pauses=[[2 * T - 1, 5 * T]],
                                                                          loss_delay=1, reconnect_delay=1)]]))
        out.append(dict(T=T, leader=True, script=SETUP + [["run", T + 1, pol(rtt=1)], ["pause"], ["lost"], ["adv", 2], ["reconnecting"],
                                                           ["made"], ["run", 4 * T, pol(rtt=1)], ["pause"], ["adv", T], ["stop"], ["resume"],
                                                           ["lost"]]))
        out.append(dict(T=T, leader=False, script=SETUP + [["pause"], ["adv", 2 * T], ["resume"], ["adv", T]]))
        # inbound flow control: a subchannel consumer pauses (the connection stops reading: Pongs wait in the socket
        # buffer), for part of an interval / across an expiry / for two intervals; the connection is lost while paused and
        # the consumer resumes / stops / closes during the outage, or stays paused into the next connection and lets go
        # later; two consumers; in both worlds
        for world in ("stand-in", "real"):
            W = dict(T=T, leader=True) if world == "stand-in" else dict(T=T, leader=True, world="real")
            for let_go in ("cresume", "cstop", "cclose"):
                out.append(dict(W, script=SETUP + [["run", T + 1, pol(rtt=1)], ["cpause", 0], ["adv", 1], ["lost"], ["adv", 1],
                                                   [let_go, 0], ["reconnecting"], ["made"], ["run", 5 * T, pol(rtt=1)]]))
                out.append(dict(W, script=SETUP + [["run", T - 1, pol(rtt=1)], ["cpause", 0], ["run", 2, pol(rtt=1)], [let_go, 0],
                                                   ["run", 4 * T, pol(rtt=1)]]))
            out.append(dict(W, script=SETUP + [["run", T + 1, pol(rtt=1)], ["cpause", 0], ["lost"], ["reconnecting"], ["made"],
                                               ["run", T + 2, pol(rtt=1)], ["cresume", 0], ["run", 4 * T, pol(rtt=1)]]))
            out.append(dict(W, script=SETUP + [["cpause", 0], ["cpause", 1], ["run", T + 1, pol(rtt=1)], ["cresume", 0], ["lost"],
                                               ["cclose", 1], ["cpause", 0], ["reconnecting"], ["made"], ["run", T, pol(rtt=1)],
                                               ["cstop", 0], ["run", 3 * T, pol(rtt=1)]]))
            out.append(dict(W, script=SETUP + [["run", 1, pol(rtt=1)], ["cpause", 0], ["run", 3 * T, pol(rtt=1, loss_delay=1,
                                                                                                        reconnect_delay=1)],
                                               ["cresume", 0], ["run", 3 * T, pol(rtt=1)]]))
        # REAL Connector + DilatedConnectionProtocol: responsive; silent -> drop -> slow close -> reconnect; the winning
        # transport closing in the turn between the peer's KCM and select() (first connection, and later ones), before
        # its KCM, right after select, in mid-interval, after the drop; stop; flow control
        R = dict(T=T, leader=True, world="real")
        out.append(dict(R, script=SETUP + [["run", 5 * T, pol(rtt=1)]]))
        out.append(dict(R, script=SETUP + [["run", 9 * T, pol(rtt=1, silent_from=T + 1, loss_delay=1, reconnect_delay=1)]]))
        out.append(dict(R, script=[["start"], ["please"], ["made", "dead"], ["adv", 3 * T], ["reconnecting"], ["made"],
                                   ["run", 4 * T, pol(rtt=1)]]))
        out.append(dict(R, script=[["start"], ["please"], ["made", "prekcm"], ["made"], ["run", 2 * T + 1, pol(rtt=1)], ["lost"],
                                   ["adv", 1], ["reconnecting"], ["made", "dead"], ["adv", 2 * T + 1], ["reconnecting"], ["made"],
                                   ["run", 3 * T, pol(rtt=T - 1)]]))
        out.append(dict(R, script=SETUP + [["run", 12 * T, pol(rtt=None, loss_delay=T, reconnect_delay=1,
                                                                made_variants=["dead", "prekcm", None, "dead", None])]]))
        out.append(dict(R, script=SETUP + [["lost"], ["reconnecting"], ["made"], ["run", T + 1, pol(rtt=1)], ["stop"], ["adv", 1], ["lost"],
                                           ["adv", 2 * T]]))
        out.append(dict(R, script=SETUP + [["run", 6 * T, pol(rtt=1, pauses=[[T - 1, 2]], stalls=[[2 * T - 1, 3]])]]))
        # one TCP segment [Data whose application handler raises, Pong] on an otherwise idle link: first, second, every Pong
        for n in (1, 2):
            out.append(dict(R, script=SETUP + [["run", 7 * T, pol(rtt=1, bad_every=n, loss_delay=1, reconnect_delay=1)]]))
        out.append(dict(R, script=SETUP + [["run", 7 * T, pol(rtt=T - 1, bad_every=3)]]))
    out += id_corpus()
    # stale / duplicate / unknown pongs
    out.append(dict(T=4, leader=True, script=SETUP + [["adv", 5], ["pong", 0], ["pong", 0], ["pong", 7], ["adv", 2], ["pong", 1],
                                                       ["adv", 12]]))
    out.append(dict(T=4, leader=True, script=SETUP + [["adv", 5], ["lost"], ["reconnecting"], ["made"], ["adv", 1], ["pong", 1],
                                                       ["pong", 0], ["adv", 9]]))
    # illegal orders (the real code raises; model must agree on the partial state)
    out.append(dict(T=4, leader=True, script=[["made"]]))
    out.append(dict(T=4, leader=True, script=SETUP + [["made"]]))
    out.append(dict(T=4, leader=True, script=SETUP + [["lost"], ["made"]]))
    out.append(dict(T=4, leader=True, script=SETUP + [["lost"], ["lost"]]))
    out.append(dict(T=4, leader=True, script=SETUP + [["lost"], ["pong", 0]]))
    out.append(dict(T=4, leader=True, script=SETUP + [["stop"], ["stop"]]))
    out.append(dict(T=4, leader=True, script=[["start"], ["please"], ["stop"], ["made"]]))
    out.append(dict(T=4, leader=False, script=SETUP + [["reconnect"], ["adv", 3], ["lost"], ["made"], ["stop"], ["lost"]]))
    return out


A, B, C = "a1b2c3d4", "00000000", "ffffffff"      # three ping ids for the fixed-draw cases


def id_corpus(long_sessions=1):
    """the random source as an input: the 4 bytes of every ping id"""
    out = []
    for T in INTERVALS:
        # the first id at / just below / just above each boundary, the following ones counting up from there (so that a
        # session of a few pings crosses 2**32 resp. 2**31 and uses 00000000 / ffffffff / 7fffffff / 80000000 as ids):
        # the peer answers every ping for a while, then goes silent; drop, slow close, new generation, responsive again
        for first in (0xfffffffd, 0xfffffffe, 0xffffffff, 0x00000000, 0x00000001, 0x7ffffffe, 0x7fffffff, 0x80000000):
            out.append(dict(T=T, leader=True, fresh_from=first,
                            script=SETUP + [["run", 14 * T, pol(rtt=1, silent_from=4 * T + 1, loss_delay=1, reconnect_delay=1)]]))
            out.append(dict(T=T, leader=True, fresh_from=first, world="real",
                            script=SETUP + [["run", 12 * T, pol(rtt=T - 1, silent_from=3 * T, loss_delay=T, reconnect_delay=1)]]))
        # only the FIRST draw fixed (a Manager that draws once and derives the rest sees just this one)
        for first in ("fffffffd", "ffffffff", "00000000", "7fffffff", "80000000"):
            out.append(dict(T=T, leader=True, draws=[first],
                            script=SETUP + [["run", 9 * T, pol(rtt=1, silent_from=5 * T)]]))
        # the same 4 bytes again and again, each time after the previous ping with them was answered: legal, never a
        # duplicate; responsive for ever / then silent / across a loss and a reconnect
        out.append(dict(T=T, leader=True, draws=[A] + [B] * 12, script=SETUP + [["run", 8 * T, pol(rtt=1)]]))
        out.append(dict(T=T, leader=True, draws=[A] + [B, C] * 6, script=SETUP + [["run", 9 * T, pol(rtt=T - 1, silent_from=4 * T)]]))
        out.append(dict(T=T, leader=True, draws=[A, B, B, C, B, B, B],
                        script=SETUP + [["run", 2 * T + 2, pol(rtt=1)], ["lost"], ["adv", 1], ["reconnecting"], ["made"],
                                        ["run", 6 * T, pol(rtt=1, silent_from=2 * T + 1, loss_delay=1, reconnect_delay=1)]]))
        # THE EXCLUDED POINT: the random source returns the id of a ping that is still outstanding (the ping of
        # connector_connection_made is never written, never answered, never retired).  At the first expiry / at a later
        # expiry / inside the next connector_connection_made.  The model says what the real code does; not judged.
        out.append(dict(T=T, leader=True, draws=[A, A], script=SETUP + [["run", 6 * T, pol(rtt=None)]]))
        out.append(dict(T=T, leader=True, draws=[B, C, C, B], script=SETUP + [["run", 7 * T, pol(rtt=1)]]))
        out.append(dict(T=T, leader=True, draws=[C, B, C],
                        script=SETUP + [["run", T + 2, pol(rtt=1)], ["lost"], ["adv", 1], ["reconnecting"], ["made"], ["adv", 3 * T]]))
        out.append(dict(T=T, leader=True, draws=[A, B, B],
                        script=SETUP + [["run", 5 * T, pol(rtt=None, loss_delay=1, reconnect_delay=1)]]))
    # long sessions: hundreds of answered pings, then silence; the ids cross 2**32 resp. 2**31 on the way
    longs = [(4, 260, 0x100000000 - 200), (4, 150, 0x80000000 - 100), (8, 130, 0x100000000 - 64)][:long_sessions]
    for T, n, first in longs:
        out.append(dict(T=T, leader=True, fresh_from=first,
                        script=SETUP + [["run", (n + 4) * T, pol(rtt=1, silent_from=n * T + 1, loss_delay=1, reconnect_delay=1)]]))
    return out


def rand_ids(rng, case, collisions=True):
    """sometimes: fix the random source of a generated case"""
    r = rng.random()
    if r < 0.3:
        base = rng.choice([0x100000000, 0x100000000, 0x80000000, 0, rng.randrange(1 << 32)])
        case["fresh_from"] = (base - rng.randrange(0, 7)) % (1 << 32)
    elif r < 0.36:
        case["draws"] = ["%08x" % rng.choice([0, 0xffffffff, 0x7fffffff, 0x80000000, 0xfffffffd, rng.randrange(1 << 32)])]
    elif r < 0.44 and collisions:
        # a few values drawn over and over: repeats of answered ids, and now and then a duplicate of an outstanding one
        alphabet = rng.sample([A, B, C, "7fffffff", "80000000"], rng.choice([2, 3]))
        case["draws"] = [rng.choice(alphabet) for _ in range(rng.randrange(2, 9))]
    return case


def rand_policy(rng, T):
    grid = [0, 1, T // 2, T - 1, T, T + 1, 2 * T - 1, 2 * T, 2 * T + 1]
    r = rng.random()
    p = pol(rtt=rng.choice(grid[:6] if r < 0.7 else grid))
    if rng.random() < 0.3:
        p["rtts"] = [rng.choice(grid + [None]) for _ in range(rng.randrange(2, 5))]
    if rng.random() < 0.3:
        p["drop_every"] = rng.choice([2, 3, 4])
    if rng.random() < 0.6:
        p["silent_from"] = rng.randrange(0, 6 * T + 1)
    elif rng.random() < 0.4:
        p["silent_until"] = rng.choice([T, 2 * T + 1, 3 * T])
    if rng.random() < 0.35:
        p["stalls"] = [[rng.choice([0, 1, T - 2, T - 1, T, T + 1, 2 * T - 1, rng.randrange(0, 5 * T)]),
                        rng.choice([1, 2, T - 1, T, T + 1, 2 * T, 3 * T + 1])] for _ in range(rng.randrange(1, 4))]
    if rng.random() < 0.35:
        p["pauses"] = [[rng.choice([0, 1, T - 1, T, T + 1, 2 * T - 1, 2 * T, rng.randrange(0, 5 * T)]),
                        rng.choice([1, 2, T - 1, T, T + 1, 3 * T])] for _ in range(rng.randrange(1, 3))]
    if rng.random() < 0.7:
        p["loss_delay"] = rng.choice([0, 1, T - 1, T, 2 * T + 1, 4 * T])
        if rng.random() < 0.8:
            p["reconnect_delay"] = rng.choice([0, 1, T, 3 * T])
    return p


def rand_real_case(rng):
    """legal schedules only (the Connector is real): connections that die before their KCM / between KCM and select /
    at any later tick, silent or responsive peers, slow closes, stop"""
    T = rng.choice(INTERVALS)
    first = rng.choice([None, None, "dead", "prekcm"])
    script = [["start"], ["please"]] + ([["made"]] if first is None else [["made", first]] + ([["made"]] if first == "prekcm" else []))
    alive = first != "dead"
    for _ in range(rng.randrange(1, 4)):
        if not alive:
            script += [["adv", rng.randrange(0, 2 * T)], ["reconnecting"]]
            v = rng.choice([None, None, "dead", "prekcm"])
            script += [["made"]] if v is None else [["made", v]] + ([["made"]] if v == "prekcm" else [])
            alive = v != "dead"
            continue
        p = rand_policy(rng, T)
        p["made_variants"] = [rng.choice([None, None, "dead", "prekcm"]) for _ in range(3)] + [None]
        if rng.random() < 0.3:
            p["bad_every"] = rng.choice([1, 2, 3])
        if rng.random() < 0.35:
            script += [[rng.choice(["cpause", "cpause", "cresume", "cstop", "cclose"]), rng.randrange(2)]
                       for _ in range(rng.randrange(1, 3))]
        script.append(["run", rng.randrange(1, 7 * T), p])
        r = rng.random()
        if r < 0.3:
            script.append(["lost"])       # the transport of the connection in use closes now (if there is one)
            alive = False
        elif r < 0.4:
            script += [["stop"], ["run", rng.randrange(0, 2 * T), rand_policy(rng, T)]]
            break
    return rand_ids(rng, dict(T=T, leader=True, world="real", script=script), collisions=False)


def rand_case(rng, adversarial=False):
    T = rng.choice(INTERVALS)
    leader = rng.random() < 0.85
    script = list(SETUP)
    for _ in range(rng.randrange(1, 5)):
        r = rng.random()
        if r < 0.55:
            script.append(["run", rng.randrange(1, 8 * T), rand_policy(rng, T)])
        elif r < 0.65:
            script.append(["adv", rng.randrange(0, 3 * T)])
        elif r < 0.75:
            script += [["lost"], ["adv", rng.randrange(0, 2 * T)]] + ([["reconnecting"], ["made"]] if leader else [["reconnect"], ["made"]])
        elif r < 0.82:
            script.append(["stop"])
            script.append(["run", rng.randrange(0, 3 * T), rand_policy(rng, T)])
            if rng.random() < 0.7:
                script += [["lost"], ["adv", rng.randrange(0, 3 * T)]]
        elif r < 0.84:
            script += [[rng.choice(["cpause", "cpause", "cresume", "cstop", "cclose"]), rng.randrange(2)]
                       for _ in range(rng.randrange(1, 3))]
        elif r < 0.86:
            script += [[rng.choice(["pause", "resume"])], ["adv", rng.choice([1, T - 1, T, T + 1])], [rng.choice(["pause", "resume"])]]
        elif r < 0.88:
            script.append(["stall", rng.choice([0, 1, T - 1, T, T + 1, 2 * T + 1])])
        elif r < 0.9:
            script.append(["pong", rng.randrange(0, 6)])
        else:
            script.append(["adv", rng.choice([T - 1, T, T + 1, 2 * T])])
    if adversarial:
        # illegal orders / junk at a random place
        junk = rng.choice([["made"], ["lost"], ["stop"], ["start"], ["please"], ["reconnecting"], ["reconnect"], ["pause"], ["resume"],
                           ["pong", rng.randrange(0, 9)]])
        script.insert(rng.randrange(0, len(script) + 1), junk)
    return rand_ids(rng, dict(T=T, leader=leader, script=script))


def exhaustive(T=4):
    """small-scope exhaustive: every rtt, every silence point, optional loss/stop point"""
    out = []
    for rtt in range(0, 2 * T + 2):
        for silent in range(0, 3 * T + 1, 1):
            out.append(dict(T=T, leader=True, script=SETUP + [["run", 6 * T + 2, pol(rtt=rtt, silent_from=silent)]]))
    # every reactor stall (a, a+n] around the first two expiries, peer answering after 1 and after T-1 ticks
    for rtt in (1, T - 1):
        for a in range(0, 2 * T + 1):
            for n in range(1, 2 * T + 2):
                out.append(dict(T=T, leader=True, script=SETUP + [["run", 6 * T, pol(rtt=rtt, stalls=[[a, n]])]]))
    # every (close delay, reconnect delay) of a dropped silent connection, next connection responsive
    for ld in range(0, 3 * T + 1):
        for rd in (0, 1, T - 1, T, 2 * T):
            out.append(dict(T=T, leader=True, script=SETUP + [["run", 8 * T, pol(rtt=1, silent_until=2 * T + 1, loss_delay=ld,
                                                                                  reconnect_delay=rd)]]))
    # consumer pauses at a, the connection is lost at b, the consumer lets go (or not) before the reconnect at c
    for a in range(0, T + 2):
        for b in range(0, T + 1, 2):
            for let_go in ("cresume", "cstop", "cclose", None):
                for world in (None, "real"):
                    c = dict(T=T, leader=True, script=SETUP + [["run", a, pol(rtt=1)], ["cpause", 0], ["run", b, pol(rtt=1)], ["lost"],
                                                               ["adv", 1]] + ([[let_go, 0]] if let_go else []) +
                             [["reconnecting"], ["made"], ["run", 3 * T, pol(rtt=1)]] + ([] if let_go else [["cresume", 0]]) +
                             [["run", 3 * T, pol(rtt=1)]])
                    if world:
                        c["world"] = world
                    out.append(c)
    # the random source: every first id within 6 of 2**32 and around 0 / 2**31 (the next ones count up from it) x every silence
    # point, with drop, close and a new generation; every sequence of <= 5 draws over two values (answered repeats and
    # duplicates of outstanding ids alike) against a responsive and a silent peer
    for first in list(range(0x100000000 - 6, 0x100000000 + 2)) + list(range(0x80000000 - 3, 0x80000000 + 1)):
        for silent in range(0, 5 * T + 1):
            out.append(dict(T=T, leader=True, fresh_from=first % 0x100000000,
                            script=SETUP + [["run", 10 * T, pol(rtt=1, silent_from=silent, loss_delay=1, reconnect_delay=1)]]))
    for n in range(1, 6):
        for bits in range(1 << n):
            draws = [B if (bits >> i) & 1 else C for i in range(n)]
            for p in (pol(rtt=1, loss_delay=1, reconnect_delay=1), pol(rtt=1, silent_from=T + 1, loss_delay=1, reconnect_delay=1)):
                out.append(dict(T=T, leader=True, draws=draws, script=SETUP + [["run", 7 * T, p]]))
    # every pause window [a, a+d) over the first two expiries, responsive peer
    for a in range(0, 2 * T + 2):
        for d in range(1, T + 3):
            out.append(dict(T=T, leader=True, script=SETUP + [["run", 5 * T, pol(rtt=1, pauses=[[a, d]])]]))
    for rtt in (0, 1, T - 1, T):
        for cut in range(0, 3 * T + 1):
            for what in ("lost", "stop"):
                tail = [["lost"], ["adv", 2], ["reconnecting"], ["made"], ["run", 3 * T, pol(rtt=rtt, silent_from=T)]] if what == "lost" else \
                       [["stop"], ["run", T, pol(rtt=rtt)], ["lost"], ["adv", 2 * T]]
                out.append(dict(T=T, leader=True, script=SETUP + [["run", cut, pol(rtt=rtt)]] + tail))
    return out


def cases(rng, tier):
    out = corpus()
    n = 700 if tier == "quick" else 60000
    for i in range(n):
        out.append(rand_real_case(rng) if i % 6 == 5 else rand_case(rng, adversarial=(i % 5 == 4)))
    if tier == "thorough":
        out += exhaustive(4)
        out += exhaustive(8)
        out += id_corpus(long_sessions=3)[-2:]
    return out


def search(rng, seconds, seeds):
    t0 = _time.time()
    for c in seeds:
        yield c, run_case(c)
    for c in corpus():
        yield c, run_case(c)
    for c in exhaustive(4):
        yield c, run_case(c)
        if _time.time() - t0 > seconds:
            return
    while _time.time() - t0 < seconds:
        c = rand_case(rng, adversarial=rng.random() < 0.2)
        yield c, run_case(c)


def shrink(case):
    sc = case["script"]
    if case.get("draws"):
        d = case["draws"]
        for i in range(len(d) - 1, -1, -1):
            yield dict(case, draws=d[:i] + d[i + 1:])
    for i in range(len(sc) - 1, 2, -1):
        yield dict(case, script=sc[:i] + sc[i + 1:])
    for i, seg in enumerate(sc):
        if seg[0] == "run":
            if seg[1] > 1:
                for d in (seg[1] // 2, seg[1] - 1):
                    yield dict(case, script=sc[:i] + [["run", d, seg[2]]] + sc[i + 1:])
            p = seg[2]
            for key, val in (("drop_every", 0), ("rtts", None), ("loss_delay", None), ("reconnect_delay", None), ("pauses", None), ("stalls", None), ("bad_every", None)):
                if p.get(key):
                    q = dict(p)
                    q[key] = val
                    if val is None:
                        q.pop(key)
                    yield dict(case, script=sc[:i] + [["run", seg[1], q]] + sc[i + 1:])
        if seg[0] == "adv" and seg[1] > 1:
            yield dict(case, script=sc[:i] + [["adv", seg[1] // 2]] + sc[i + 1:])
