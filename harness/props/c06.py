"""C06 — Transit delivers exactly the records sent, or drops the connection.

Drives two real `transit.Connection` objects (owners: a real `TransitSender` and a real
`TransitReceiver` with the same transit key, real handshake, real NaCl SecretBox, real HKDF) over
in-memory transports.  The bytes one side writes are manipulated / chunked by the case and fed to
the other side's `dataReceived`.

Case kind `links` (run_links): several such connection pairs - links with different transit keys, opened at any moment -
live in one process and all their events are interleaved in one schedule; nothing on the Connection objects is replaced
or wrapped there, and the model is the product of the per-connection models (WV.C06.pstep, Props/C06_Links.lean).

Line protocol choice (see lean/WV/Model/C06.lean): the lines carry the REAL ciphertext bytes, so the
model runs its framing / nonce / state logic on exactly the bytes the real code sees.  The only thing
abstracted is XSalsa20-Poly1305 itself, and it is abstracted as the ideal AEAD functionality: the
model's box is the table of the sealings that were really made (`send` / `seal` lines give
(key-name, nonce, sealed bytes, plaintext); the sealed bytes on those lines are computed by the
harness *independently* of the code under test, from the protocol's documented CTXinfo strings and
`crypto_secretbox`).  Whatever is not in the table must fail to open: the model is never told the
verdict for a manipulated blob, it predicts it, and real NaCl has to agree.
"""
import hashlib
import io
import os
import random
from collections import deque

from nacl.bindings import crypto_secretbox
from twisted.internet import error as tw_error
from twisted.internet.interfaces import IConsumer, ITransport
from twisted.internet.task import Clock
from twisted.python.failure import Failure
from zope.interface import implementer

from wormhole import transit
from wormhole.util import HKDF

from ..core import Result
from ..fakes import hx

ID = "C06"
PROP_MODULES = ["WV.Props.C06"]
# the queue-capacity theorem needs the translator's `inbound_records_maxlen` flags (tools/extract.py, staged in
# agents/C06_integration_round6.md); it is part of the check as soon as its module is installed
if os.path.exists(os.path.join(os.path.dirname(os.path.dirname(os.path.dirname(os.path.abspath(__file__)))),
                               "lean", "WV", "Props", "C06_Queue.lean")):
    PROP_MODULES.append("WV.Props.C06_Queue")
# likewise the attach-order theorem (flag `connectConsumer_registers_before_attach`, agents/C06_extract_round8.diff)
if os.path.exists(os.path.join(os.path.dirname(os.path.dirname(os.path.dirname(os.path.abspath(__file__)))),
                               "lean", "WV", "Props", "C06_Attach.lean")):
    PROP_MODULES.append("WV.Props.C06_Attach")
# the general consumer-threshold theorems (agents/deepC06_integration.md)
if os.path.exists(os.path.join(os.path.dirname(os.path.dirname(os.path.dirname(os.path.abspath(__file__)))),
                               "lean", "WV", "Props", "C06_Thresh.lean")):
    PROP_MODULES.append("WV.Props.C06_Thresh")
# several Connection objects in one process: the product of the per-connection models (links_independent, link_projection,
# every_link_prefix, every_link_delivery_exact)
PROP_MODULES.append("WV.Props.C06_Links")
# … and the real objects are a product too (flag `shared_between_connections`, agents/sC06_shared.diff): part of the
# check as soon as its module is installed together with the translator's section
if os.path.exists(os.path.join(os.path.dirname(os.path.dirname(os.path.dirname(os.path.abspath(__file__)))),
                               "lean", "WV", "Props", "C06_Objects.lean")):
    PROP_MODULES.append("WV.Props.C06_Objects")
# translation validation of the Connection method bodies (tools/extract.py::extract_pyir_tr -> WV/Gen/PyIRTr.lean,
# interpreter WV/Model/PyIR.lean): part of the check as soon as the module is installed (agents/deepTr_integration.md)
if os.path.exists(os.path.join(os.path.dirname(os.path.dirname(os.path.dirname(os.path.abspath(__file__)))),
                               "lean", "WV", "Props", "PyIRTr_C06.lean")):
    PROP_MODULES.append("WV.Props.PyIRTr_C06")
TRUSTED = ["XSalsa20-Poly1305 (NaCl SecretBox): an interface in Lean whose ideal-AEAD properties are hypotheses "
           "(only the honest sealings open); the harness runs real NaCl against the ideal table on every case",
           "HKDF: injective in CTXinfo (hypothesis); the CTXinfo strings themselves are regenerated from /repo",
           "PyNaCl's SecretBox.decrypt wrapper (exception class by blob length) is modelled, not verified",
           "Twisted: after transport.loseConnection() the reactor calls connectionLost once (the harness reports losses as "
           "Twisted does: Failure(ConnectionDone) for a FIN, Failure(ConnectionLost) for a reset, or no argument); an exception leaving "
           "dataReceived drops the connection",
           "transit handshake (C07) is run for real by the harness but not modelled here; the model starts at "
           "_negotiationSuccessful (bytes riding behind the handshake are the first chunk: leftover_is_first_chunk)",
           "application callbacks (read callbacks, consumer-Deferred callbacks) re-enter the connection only through "
           "receive_record / connectConsumer / writeToFile / disconnectConsumer / close / pauseProducing / resumeProducing, "
           "as finite scripts; a consumer's write() may call producer.pauseProducing() (flow-controlled consumer); errbacks, "
           "registerProducer / unregisterProducer and progress/hasher hooks are passive (they do not call back into the "
           "connection), except that a consumer may call producer.resumeProducing() from registerProducer() and the "
           "application may resume at top level on a transport that holds bytes while paused and releases them "
           "synchronously (re-entrant dataReceived is modelled at those two places only); the application does not cancel() a receive_record() Deferred (outside the property's quantifier, "
           "see agents/C06_integration_round7.md)"]
RULE = ("two real Connections (TransitSender/TransitReceiver owners, real handshake, real NaCl); record lists with sizes "
        "{0,1,15,16,65535,65536,70000}+random, counts <= 12; chunkings all/1-byte/frame-aligned/random/explicit; every "
        "manipulation class (bit flip in length/nonce/MAC/body, delete, duplicate, swap, replay-at-end, truncate, inject "
        "bytes/garbage frame/empty frame/short frame, reflect, cross-direction, key-holder wrong nonce, huge length), both "
        "directions, read / chained-read / pipelined reads / consumer / writeToFile modes, random trees of re-entrant "
        "callbacks (reads issued from read callbacks, consumers attached mid-stream over queued records and outstanding "
        "reads, detached, re-attached from their own Deferred's callback, close() from callbacks, pauseProducing / "
        "resumeProducing from callbacks and at top level, consumers that pause their producer in write() - combined with "
        "every manipulation class and coalesced segments), connectionLost and "
        "close at arbitrary points, the loss reported as FIN / reset / without argument, the stream cut at every byte position "
        "with consumers and reads outstanding; consumer sessions (consumer_threshold_exact): connectConsumer / writeToFile over a "
        "backlog of queued records with the count below / equal to / above the bytes of the backlog, reached in the middle of "
        "the backlog, by a later record or never, expected None / 0, zero-length records with small counts, consumers "
        "disconnected by the application and re-attached, re-attached from the Deferred's callback, a second attach while one "
        "is attached, reads outstanding or served before the attach (hand-picked, random around the partial sums of the "
        "stream, and exhaustively for <= 3 records of 0..2 bytes x every attach position x every count); every consumer object "
        "records which records it was given, when it was unregistered and when its Deferred fired; "
        "the order in which records leave the connection is observed by instrumenting the "
        "inbound queue in-process; "
        "several live Connection objects in one process (case kind `links`, nothing on the objects replaced or wrapped): 1-3 "
        "links with different transit keys, both ends of each in this process, records in both directions, links opened at any "
        "moment (sessions side by side and one after the other, earlier ones ending - lost / closed / abandoned - with unread "
        "records parked), sends / deliveries in any chunks / application scripts / losses of all connections interleaved in one "
        "schedule, twins (same sizes at the same positions on two links), frames of another link, of the other direction, the "
        "connection's own, replayed or altered spliced in; every interleaving of send / deliver / read on two links and on the "
        "two ends of one link (small scope, complete in the thorough tier); at the end everything parked is read out through "
        "receive_record(); oracle per connection: what it surfaces is exactly / a prefix of what ITS peer sealed for it "
        "(foreign-record, not-a-prefix, lossless, manipulated-delivered, not-dropped), an operation on one connection makes no "
        "other connection do anything (link-disturbed), plus the loss and threshold clauses; "
        "non-trivial = at least one record accepted or one manipulation detected; distinct = distinct canonical traces")

SPEC_CTX = {"S": b"transit_record_sender_key", "R": b"transit_record_receiver_key"}   # key a side SENDS with
KEY = hashlib.sha256(b"verif C06 transit key").digest()


def be(n, w):
    return n.to_bytes(w, "big")


def payload(size, seed):
    if size == 0:
        return b""
    rnd = random.Random(seed * 7919 + size)
    if size <= 64:
        return bytes(rnd.randrange(256) for _ in range(size))
    blk = bytes(rnd.randrange(256) for _ in range(61))
    return (blk * (size // 61 + 1))[:size]


def spec_key(sender_role, key=None):
    return HKDF(KEY if key is None else key, 32, CTXinfo=SPEC_CTX[sender_role])


def spec_sealed(sender_role, nonce_int, pt, key=None):
    """MAC||ciphertext of `pt` as the protocol documents it, computed without the code under test."""
    return crypto_secretbox(pt, be(nonce_int, 24), spec_key(sender_role, key))


def link_key(link):
    """the transit key of link number `link` (link 0 has the key of the one-link cases)"""
    return KEY if link == 0 else hashlib.sha256(b"verif C06 transit key of link %d" % link).digest()


@implementer(ITransport, IConsumer)
class Pipe:
    """in-memory transport.  With `hold` it behaves like a loopback pipe under flow control: while paused it keeps the
    bytes that arrive, and resumeProducing() hands them to the protocol synchronously, logging (like a reactor) any
    exception that leaves dataReceived"""

    def __init__(self, side):
        self.side = side
        self.written = []
        self.lost = 0
        self.hold = False
        self.paused = False
        self.held = []
        self.fed = b""      # everything actually handed to dataReceived through this pipe
        self.excs = []

    def write(self, data):
        self.written.append(bytes(data))
        self.side.ev.append("tx=" + hx(bytes(data)))

    def loseConnection(self):
        self.lost += 1
        self.side.ev.append("lose")

    def registerProducer(self, p, streaming):
        pass

    def unregisterProducer(self):
        pass

    def pauseProducing(self):
        self.paused = True
        self.side.ev.append("pause")

    def resumeProducing(self):
        self.paused = False
        self.side.ev.append("resume")
        if self.hold:
            chunks, self.held = self.held, []
            for ch in chunks:
                self.fed += ch
                try:
                    self.side.conn.dataReceived(ch)
                except Exception as e:
                    self.excs.append(type(e).__name__)
                    self.side.ev.append("!" + type(e).__name__)

    def stopProducing(self):
        pass

    def getPeer(self):
        return "peer"

    def getHost(self):
        return "host"


class _Factory:
    def connectionWasMade(self, p):
        pass


@implementer(IConsumer)
class LogConsumer:
    """`fc`: a flow-controlled consumer (IPushProducer contract): it asks its producer to pause from inside every
    write(); somebody resumes the producer on a later turn"""

    def __init__(self, side, fc=False, ready=False, trace=None):
        self.side = side
        self.data = []
        self.fc = fc
        self.ready = ready      # says "ready" by resuming its producer from registerProducer()
        self.producer = None
        self.trace = trace if trace is not None else new_trace(None)

    def registerProducer(self, producer, streaming):
        assert streaming
        self.producer = producer
        self.side.ev.append("reg")
        self.trace["reg"] += 1
        if self.ready:
            producer.resumeProducing()

    def unregisterProducer(self):
        self.side.ev.append("unreg")
        self.trace["unreg_at"].append(len(self.trace["w"]))

    def write(self, b):
        self.data.append(bytes(b))
        self.side.ev.append("w=" + hx(bytes(b)))
        note_write(self.side, self.trace, bytes(b))
        if self.fc:
            self.producer.pauseProducing()


def new_trace(expected):
    """what one consumer object saw, for the threshold oracle: `w` = its write() calls as (index of the record in the
    order in which records leave the connection | None for the empty kick of expected=0, bytes); `unreg_at` = number of
    writes seen at each unregisterProducer(); `reg` = registerProducer() calls"""
    return {"expected": expected, "w": [], "unreg_at": [], "reg": 0}


def note_write(side, trace, b):
    # the record being written is the one that left the connection last (the spies on the inbound queue and on
    # recordReceived note it just before _writeToConsumer runs); the kick of expected=0 is no record
    if not side.spy and trace["expected"] != 0:
        side.surf.append(b)      # no instrumentation: the record leaves the connection by this very write
    trace["w"].append((None if trace["expected"] == 0 else len(side.surf) - 1, b))


class LogFile:
    def __init__(self, side, trace=None):
        self.side = side
        self.data = []
        self.trace = trace if trace is not None else new_trace(None)

    def write(self, b):
        self.data.append(bytes(b))
        self.side.ev.append("w=" + hx(bytes(b)))
        note_write(self.side, self.trace, bytes(b))


def _logging_file_consumer(side, trace=None):
    base = transit.FileConsumer
    trace = trace if trace is not None else new_trace(None)

    class LoggingFileConsumer(base):
        def registerProducer(self, producer, streaming):
            side.ev.append("reg")
            trace["reg"] += 1
            return base.registerProducer(self, producer, streaming)

        def unregisterProducer(self):
            side.ev.append("unreg")
            trace["unreg_at"].append(len(trace["w"]))
            return base.unregisterProducer(self)
    return LoggingFileConsumer


class Side:
    """one real Connection, negotiated for real, plus the observation of everything it does"""

    def __init__(self, role, key=None, spy=True):
        """`spy=False`: the Connection object is left exactly as the code built it (nothing is replaced or wrapped on
        it, so whatever its instances share stays shared); the order in which records leave it is then the order of
        the read callbacks and consumer writes themselves"""
        self.role = role
        self.key = KEY if key is None else key
        self.spy = spy
        self.ev = []
        self.clock = Clock()
        cls = transit.TransitSender if role == "S" else transit.TransitReceiver
        self.owner = cls(None, no_listen=True, reactor=self.clock)
        self.owner.set_transit_key(self.key)
        self.conn = transit.Connection(self.owner, None, 0.0, "desc")
        self.conn.callLater = self.clock.callLater      # TimeoutMixin hook: no global reactor
        self.conn.factory = _Factory()
        self.pipe = Pipe(self)
        self.reads = {}        # Deferred -> id
        self.read_result = {}  # id -> ("ok", bytes) | ("err", name)
        self.next_id = 0
        self.consumers = []    # (consumer/file object, deferred or None, expected, result holder)
        self.progress = 0
        self.hasher = hashlib.sha256()
        self.closed = False
        # the order in which records leave the connection towards the application: every pop from the inbound
        # queue and every record handed straight to an attached consumer (observed by instrumenting the object,
        # inside this process only)
        self.surf = []
        self.second_attach = []   # every connectConsumer call that found a consumer attached, or raised
        side = self
        if not spy:
            return

        class SpyDeque(deque):
            def popleft(self_):
                r = deque.popleft(self_)
                side.surf.append(bytes(r))
                return r

            def pop(self_, *a):
                r = deque.pop(self_, *a)
                side.surf.append(bytes(r))
                return r
        old = self.conn._inbound_records
        # same contents and same capacity as the queue the Connection built for itself
        self.conn._inbound_records = SpyDeque(old, getattr(old, "maxlen", None))
        orig_rr = self.conn.recordReceived

        def spy_record_received(record):
            if self.conn._consumer:
                self.surf.append(bytes(record))
            return orig_rr(record)
        self.conn.recordReceived = spy_record_received

    def handshake_bytes(self):
        if self.role == "S":
            return transit.build_receiver_handshake(self.key)
        return transit.build_sender_handshake(self.key) + b"go\n"

    def start(self, leftover):
        c = self.conn
        c.makeConnection(self.pipe)
        res = []
        d = c.startNegotiation()
        d.addCallbacks(lambda x: res.append("ok"), lambda f: res.append(f))
        hs = self.handshake_bytes()
        exc = None
        # all but the last byte first, so that `leftover` really rides on the chunk that completes the handshake
        c.dataReceived(hs[:-1])
        self.ev.clear()
        try:
            c.dataReceived(hs[-1:] + leftover)
        except Exception as e:
            exc = type(e).__name__
        assert res == ["ok"], res
        # drop the handshake writes (b"go\n") from the event view: the model starts after them
        self.ev[:] = [e for e in self.ev if e != "tx=" + hx(b"go\n")]
        return exc

    # --- application side: scripts (trees of API calls made from inside callbacks), see WV.C06.Act
    def run_script(self, acts):
        """application code: the API calls of one callback (or of top-level code), in order; an exception leaving a
        call ends it (inside a callback Twisted's Deferred would swallow it the same way)"""
        try:
            for a in acts:
                self.do_act(a)
        except Exception as e:
            self.ev.append("!" + type(e).__name__)

    def do_act(self, a):
        k = a[0]
        if k == "r":
            self.read(a[1])
        elif k == "c":
            self.consume(a[1], a[2], a[3])
        elif k == "d":
            cur = self.conn._consumer
            for rec in self.consumers:
                if cur is not None and (rec["obj"] is cur or getattr(cur, "_f", None) is rec["obj"]):
                    rec["detached"] = True      # the application gave up on this consumer: its Deferred is dropped
                    rec["writes_at_detach"] = len(rec["trace"]["w"])
            self.conn.disconnectConsumer()
        elif k == "x":
            self.closed = True
            self.conn.close()
        elif k == "p":
            self.conn.pauseProducing()
        elif k == "u":
            self.conn.resumeProducing()
        else:
            raise ValueError(a)

    def read(self, on_fire):
        rid = self.next_id
        self.next_id += 1

        def cb(r):
            self.read_result[rid] = ("ok", bytes(r))
            if not self.spy:
                self.surf.append(bytes(r))
            self.ev.append(f"r{rid}={hx(bytes(r))}")
            self.run_script(on_fire)

        def eb(f):
            self.read_result[rid] = ("err", f.type.__name__)
            self.ev.append(f"x{rid}")
        # receive_record() may fire the Deferred before returning it; the callback is added afterwards (as an
        # application does) and Twisted then runs it immediately
        d = self.conn.receive_record()
        self.reads[id(d)] = (rid, d)
        d.addCallbacks(cb, eb)

    def consume(self, expected, mode, on_done):
        holder = {}
        c = self.conn
        trace = new_trace(expected)
        trace["backlog"] = [bytes(x) for x in c._inbound_records]     # what is queued when connectConsumer is called
        # a consumer attached already: the call must raise RuntimeError and change nothing
        busy = c._consumer is not None
        before = (c._consumer, c._consumer_bytes_written, c._consumer_bytes_expected, c._consumer_deferred,
                  len(c._inbound_records), len(self.surf)) if busy else None
        try:
            if mode == "file":
                f = LogFile(self, trace)
                orig = transit.FileConsumer
                transit.FileConsumer = _logging_file_consumer(self, trace)
                try:
                    d = c.writeToFile(f, expected, progress=self._progress, hasher=self.hasher.update)
                finally:
                    transit.FileConsumer = orig
                obj = f
            else:
                obj = LogConsumer(self, fc=(mode == "fc"), ready=(mode == "ready"), trace=trace)
                d = c.connectConsumer(obj, expected)
        except Exception as e:
            after = (c._consumer, c._consumer_bytes_written, c._consumer_bytes_expected, c._consumer_deferred,
                     len(c._inbound_records), len(self.surf))
            self.second_attach.append(dict(busy=busy, exc=type(e).__name__, unchanged=(before == after),
                                           touched=(trace["reg"], len(trace["w"]), len(trace["unreg_at"])),
                                           expected=expected))
            raise
        if busy:
            self.second_attach.append(dict(busy=True, exc=None, unchanged=False, touched=(trace["reg"], len(trace["w"]), 0),
                                           expected=expected))
        rec = dict(obj=obj, d=d, expected=expected, holder=holder, mode=mode, trace=trace,
                   after_lost=getattr(self, "lost_at_id", None) is not None,
                   fired_in_call=(d is not None and d.called), seq=len(self.consumers))
        self.consumers.append(rec)
        if d is not None:
            def cb(n):
                holder["done"] = n
                holder["at"] = sum(len(x) for x in obj.data)
                holder["calls"] = holder.get("calls", 0) + 1
                holder["writes_at_done"] = len(trace["w"])
                holder["unreg_at_done"] = len(trace["unreg_at"])
                holder["consumer_at_done"] = c._consumer
                self.ev.append(f"cd={n}")
                self.run_script(on_done)

            def eb(f):
                holder["fail"] = f.type.__name__
                self.ev.append("cx")
            d.addCallbacks(cb, eb)

    def _progress(self, n):
        self.progress += n

    def summary(self, exc=None):
        c = self.conn
        st = {"records": "records", "hung up": "hung-up"}.get(c.state, str(c.state))
        err = type(c._error).__name__ if c._error is not None else "-"
        if c._consumer:
            ex = c._consumer_bytes_expected
            cons = f"{c._consumer_bytes_written}/{'none' if ex is None else ex}"
        else:
            cons = "-"
        # a Deferred this connection never handed out (another connection's) shows as "?"
        wait = " ".join(str(self.reads.get(id(d), ("?", None))[0]) for d in c._waiting_reads)
        ev = " ".join(self.ev)
        self.all_ev = getattr(self, "all_ev", []) + self.ev
        self.ev = []
        return (f"{exc or 'ok'} st={st} err={err} buf={len(c.buf)} sn={c.send_nonce} rn={c.next_receive_nonce} "
                f"q={len(c._inbound_records)} wait=[{wait}] cons={cons} ev=[{ev}]")


# ---------------------------------------------------------------------------
# manipulations of the frame list / byte stream

def spec_frame(sender_role, nonce_int, pt, key=None):
    enc = be(nonce_int, 24) + spec_sealed(sender_role, nonce_int, pt, key)
    return be(len(enc), 4) + enc


def apply_manip(manip, frames, other_frames, sender_role, rnd):
    """returns (stream bytes, seal_lines) — seal_lines register key-holder sealings for the model"""
    seal_lines = []
    fr = list(frames)
    if manip is None:
        return b"".join(fr), seal_lines
    k = manip[0]
    n = len(fr)
    if k == "flip":       # [flip, frame index, byte offset (mod frame length), bit]
        if n:
            i = manip[1] % n
            off = manip[2] % len(fr[i])
            b = bytearray(fr[i])
            b[off] ^= 1 << (manip[3] % 8)
            fr[i] = bytes(b)
    elif k == "flipat":   # [flipat, absolute stream offset, bit]
        s = bytearray(b"".join(fr))
        if s:
            s[manip[1] % len(s)] ^= 1 << (manip[2] % 8)
        return bytes(s), seal_lines
    elif k == "delete":
        if n:
            del fr[manip[1] % n]
    elif k == "dup":
        if n:
            i = manip[1] % n
            fr.insert(i + 1, fr[i])
    elif k == "replay":   # an earlier frame again, later
        if n:
            i = manip[1] % n
            j = i + 1 + manip[2] % (n - i)
            fr.insert(j, fr[i])
    elif k == "swap":
        if n >= 2:
            i = manip[1] % (n - 1)
            fr[i], fr[i + 1] = fr[i + 1], fr[i]
    elif k == "trunc":
        s = b"".join(fr)
        return s[:manip[1] % (len(s) + 1)], seal_lines
    elif k == "insbytes":  # [insbytes, absolute offset, hex]
        s = b"".join(fr)
        p = manip[1] % (len(s) + 1)
        return s[:p] + bytes.fromhex(manip[2]) + s[p:], seal_lines
    elif k == "insframe":  # [insframe, index, hex body]: a well-framed blob nobody sealed
        body = bytes.fromhex(manip[2])
        fr.insert(manip[1] % (n + 1), be(len(body), 4) + body)
    elif k == "hugelen":   # [hugelen, index]: the length prefix of a frame claims much more than will ever come
        if n:
            i = manip[1] % n
            fr[i] = be(len(fr[i]) - 4 + 2**24 + manip[2] % 1000, 4) + fr[i][4:]
    elif k == "crossdir":  # a frame the *receiver* sealed (other direction's key) spliced in
        if other_frames:
            i = manip[1] % (n + 1)
            fr.insert(i, other_frames[manip[2] % len(other_frames)])
    elif k == "keyholder":  # [keyholder, index, nonce, size]: sealed with the right key, by a key holder, wrong position
        i = manip[1] % (n + 1)
        nonce = manip[2]
        if nonce == i:
            nonce += 1      # a key holder using the right nonce is simply the sender; not a manipulation
        pt = payload(manip[3], 99)
        sealed = spec_sealed(sender_role, nonce, pt)
        seal_lines.append(f"seal {hx(SPEC_CTX[sender_role])} {hx(be(nonce, 24))} {hx(pt)} {hx(sealed)}")
        enc = be(nonce, 24) + sealed
        fr.insert(i, be(len(enc), 4) + enc)
    else:
        raise ValueError(manip)
    return b"".join(fr), seal_lines


def split_frames(stream):
    """the receiver's framing of a byte stream (the wire format, re-implemented for the oracle)"""
    out = []
    i = 0
    while len(stream) - i >= 4:
        ln = int.from_bytes(stream[i:i + 4], "big")
        if len(stream) - i < 4 + ln:
            break
        out.append(stream[i:i + 4 + ln])
        i += 4 + ln
    return out


def chunk_stream(stream, spec, frames, rnd):
    if spec == "all":
        return [stream] if stream else []
    if spec == "one":
        return [stream[i:i + 1] for i in range(len(stream))]
    if spec == "aligned":
        out, i = [], 0
        for f in frames:
            out.append(stream[i:i + len(f)])
            i += len(f)
        if i < len(stream):
            out.append(stream[i:])
        return [c for c in out if c]
    if isinstance(spec, str) and spec.startswith("every:"):
        n = int(spec.split(":")[1])
        return [stream[i:i + n] for i in range(0, len(stream), n)]
    if isinstance(spec, list):      # explicit cut positions
        cuts = sorted({p for p in spec if 0 < p < len(stream)})
        out, prev = [], 0
        for p in cuts + [len(stream)]:
            out.append(stream[prev:p])
            prev = p
        return [c for c in out if c]
    out, i = [], 0
    while i < len(stream):
        n = rnd.choice([1, 1, 2, 3, 4, 5, 23, 24, 28, 40, 44, 45, 100, 1000, 65536, 70044])
        out.append(stream[i:i + n])
        i += n
    return out


# ---------------------------------------------------------------------------

# ---------------------------------------------------------------------------
# application scripts: act = ["r", [acts]] | ["c", expected, mode, [acts]] | ["d"] | ["x"]

def chain(n):
    """a read whose callback reads again, n times (the `yield receive_record()` loop)"""
    return ["r", [chain(n - 1)] if n > 0 else []]


def normalise_action(a):
    """old case vocabulary -> ["call", script] / ["lost"]"""
    k = a[0]
    if k == "read":
        return ["call", [chain(a[1])]]
    if k == "consume":
        return ["call", [["c", a[1], a[2] if len(a) > 2 else "consumer", []]]]
    if k == "close":
        return ["call", [["x"]]]
    return a


def encode_script(acts):
    """postfix tokens for the model's line protocol (see WV.C06.parseScript)"""
    toks = []

    def go(a):
        if a[0] in ("d", "x", "p", "u"):
            toks.append(a[0])
        elif a[0] == "r":
            for k in a[1]:
                go(k)
            toks.append(f"r{len(a[1])}")
        elif a[0] == "c":
            for k in a[3]:
                go(k)
            toks.append(f"{'f' if a[2] == 'fc' else 'c'}{'n' if a[1] is None else a[1]}:{len(a[3])}")
        else:
            raise ValueError(a)
    for a in acts:
        go(a)
    return ".".join(toks) if toks else "-"


def script_tags(acts, depth=0, out=None):
    out = [] if out is None else out
    for a in acts:
        out.append(("cb:" if depth else "top:") + {"r": "read", "c": "consume", "d": "detach", "x": "close", "p": "pause", "u": "resume"}[a[0]]
                   + ("-fc" if a[0] == "c" and a[2] == "fc" else ""))
        kids = a[1] if a[0] == "r" else a[3] if a[0] == "c" else []
        script_tags(kids, depth + 1, out)
    return out


def is_subsequence(xs, ys):
    it = iter(ys)
    return all(any(x == y for y in it) for x in xs)


def threshold_oracle(rcv, tags):
    """The property's threshold clause on the real run.  For every connectConsumer / writeToFile call that attached:
    the consumer is given consecutive records of the stream in the order in which they leave the connection — the
    queued backlog first —; with a count N it is unregistered exactly at the first record with which its own running
    total (from zero) is >= N, its Deferred fires exactly once, there and then, with that total, and it is given
    nothing afterwards; without that it stays attached (until the application disconnects it) and the Deferred does not
    fire.  A connectConsumer call that finds a consumer attached raises RuntimeError and changes nothing.  The records
    no consumer was given are exactly what the reads obtained, in issue order, and what is still queued."""
    out = []
    surf = rcv.surf

    def short(bs):
        return [f"{len(b)}:{b[:6].hex()}" for b in bs[:8]]
    taken = set()
    for rec in rcv.consumers:
        tr, h, ex = rec["trace"], rec["holder"], rec["expected"]
        who = f"consumer #{rec['seq']} ({rec['mode']}, expected={ex})"
        w = tr["w"]
        recs = [(i, b) for i, b in w if i is not None]
        # registered exactly once
        if tr["reg"] != 1:
            out.append(("consumer-register", f"{who}: registerProducer called {tr['reg']} times"))
        # consecutive records of the stream, in order, each the record that had just left the connection
        for j, (i, b) in enumerate(recs):
            if i != recs[0][0] + j or not (0 <= i < len(surf)) or surf[i] != b:
                out.append(("consumer-not-the-stream",
                            f"{who}: write #{j} is {len(b)}:{b[:6].hex()} at stream position {i}; the consumer must be given "
                            f"consecutive records from position {recs[0][0]} on: {short(surf[recs[0][0]:recs[0][0] + len(recs)])}"))
                break
        taken.update(i for i, _ in recs)
        sizes = [len(b) for _, b in w]
        total = sum(sizes)
        # where the count is reached by this consumer's own writes, counted from zero
        reach = None
        if ex is not None:
            run = 0
            for j, n in enumerate(sizes):
                run += n
                if run >= ex:
                    reach = j
                    break
        detached = bool(rec.get("detached"))
        if ex == 0:
            if [b for _, b in w] != [b""] or [i for i, _ in w] != [None]:
                out.append(("consumer-threshold-exact", f"{who}: expected=0 wants exactly one empty write, got {short([b for _, b in w])}"))
        if reach is not None:
            # unregistered right after write #reach, never written to again, Deferred fired once with the real total
            if len(w) != reach + 1:
                out.append(("consumer-written-after-count",
                            f"{who}: the running total reached {ex} with write #{reach} (sizes {sizes[:reach + 1]}) but "
                            f"{len(w) - reach - 1} more write(s) followed: {sizes[reach + 1:][:8]}"))
            if tr["unreg_at"][:1] != [reach + 1] or (len(tr["unreg_at"]) != 1 and not detached):
                out.append(("consumer-threshold-exact",
                            f"{who}: total reached {ex} with write #{reach} (sizes {sizes[:reach + 1]}); unregisterProducer must "
                            f"be called once, right after it; it was called after writes {tr['unreg_at']}"))
            want = sum(sizes[:reach + 1])
            if h.get("done") != want or h.get("calls") != 1 or "fail" in h:
                out.append(("consumer-threshold-exact",
                            f"{who}: total reached {ex} with write #{reach} (sizes {sizes[:reach + 1]}): the Deferred must fire "
                            f"once with {want}; done={h.get('done')} calls={h.get('calls')} fail={h.get('fail')}"))
            elif h.get("writes_at_done") != reach + 1 or h.get("unreg_at_done") != 1 or h.get("consumer_at_done") is not None:
                out.append(("consumer-threshold-exact",
                            f"{who}: the Deferred's callback ran after {h.get('writes_at_done')} writes / "
                            f"{h.get('unreg_at_done')} unregisterProducer calls, consumer still attached="
                            f"{h.get('consumer_at_done') is not None}; it must run after write #{reach}, unregistered"))
        else:
            if "done" in h:
                out.append(("consumer-threshold-exact",
                            f"{who}: the Deferred fired with {h['done']} although the running total {total} (sizes {sizes[:8]}) "
                            f"never reached {ex}"))
            if len(tr["unreg_at"]) != (1 if detached else 0):
                out.append(("consumer-threshold-exact",
                            f"{who}: count not reached (total {total}), disconnected by the application={detached}, but "
                            f"unregisterProducer was called after writes {tr['unreg_at']}"))
        if tr["unreg_at"] and len(w) != tr["unreg_at"][0]:
            out.append(("consumer-written-after-disconnect",
                        f"{who}: unregistered after {tr['unreg_at'][0]} writes but written to {len(w)} times in all"))
        # distribution: where the backlog stands relative to the count, how the session ended
        q = tr.get("backlog", [])
        bq = sum(len(x) for x in q)
        if ex is None:
            tags.append("thr:expected-none")
        elif ex == 0:
            tags.append("thr:expected-0")
        else:
            if q and rec["mode"] != "ready":
                tags.append("thr:backlog-" + ("lt" if bq < ex else "eq" if bq == ex else "gt") + "-N")
                if reach is not None and reach + 1 < len(q):
                    tags.append("thr:reached-mid-backlog")
            tags.append("thr:" + ("pending" if reach is None else "reached-exact" if sum(sizes[:reach + 1]) == ex
                                  else "reached-over"))
            if ex <= 4 and 0 in sizes:
                tags.append("thr:zero-length-record-small-N")
        if q and rec["mode"] != "ready":
            tags.append("thr:attach-over-backlog")
        if detached:
            tags.append("thr:detached-by-app")
        prev = rcv.consumers[:rec["seq"]]
        if any(p.get("detached") for p in prev):
            tags.append("thr:reattach-after-detach")
        elif prev:
            tags.append("thr:reattach-after-done" if any("done" in p["holder"] for p in prev) else "thr:another-consumer")
        if rec["fired_in_call"]:
            tags.append("thr:fired-inside-connectConsumer")
    # a second connectConsumer while one is attached: RuntimeError, nothing touched
    for sa in rcv.second_attach:
        if sa["busy"]:
            tags.append("thr:second-attach")
            if sa["exc"] != "RuntimeError" or not sa["unchanged"] or sa["touched"] != (0, 0, 0):
                out.append(("second-attach",
                            f"connectConsumer(expected={sa['expected']}) while a consumer is attached: must raise RuntimeError and "
                            f"change nothing; raised={sa['exc']} connection state unchanged={sa['unchanged']} new consumer "
                            f"(registerProducer, write, unregisterProducer) calls={sa['touched']}"))
        elif sa["exc"] is not None:
            out.append(("attach-raised", f"connectConsumer(expected={sa['expected']}) with no consumer attached raised {sa['exc']}"))
    # what no consumer was given is what the reads obtained, in the order the reads were issued
    got_reads = [rcv.read_result[i][1] for i in sorted(rcv.read_result) if rcv.read_result[i][0] == "ok"]
    rest = [surf[i] for i in range(len(surf)) if i not in taken]
    if rest != got_reads:
        out.append(("reads-not-the-rest",
                    f"records that left the connection and were not written to a consumer: {short(rest)}; the reads, in issue "
                    f"order, obtained {short(got_reads)}"))
    return out


def run_case(case):
    if case.get("kind") == "links":
        return run_links(case)
    rnd = random.Random(case.get("mseed", 0))
    snd_role = case["dir"]                  # who sends the records
    rcv_role = "R" if snd_role == "S" else "S"
    reflect = case.get("reflect", False)    # feed the sender's own bytes back to the sender
    recs = [payload(sz, sd) for sz, sd in case["recs"]]
    other = [payload(sz, sd) for sz, sd in case.get("other_recs", [])]
    lines, exp, viol, tags = [], [], [], []
    sides = {"S": Side("S"), "R": Side("R")}
    snd, rcv = sides[snd_role], sides[rcv_role]
    if reflect:
        rcv = snd
        rcv_role = snd_role
    leftover_n = case.get("leftover", 0)

    def do(line, side, exc=None):
        lines.append(line)
        exp.append(side.summary(exc))

    def start(role, leftover=b""):
        exc = sides[role].start(leftover)
        do(f"start {role} {hx(leftover)}", sides[role], exc)
        return exc

    def send_all(side, role, plain, store):
        for i, pt in enumerate(plain):
            sealed = spec_sealed(role, side.conn.send_nonce, pt)
            before = len(side.pipe.written)
            exc = None
            try:
                side.conn.send_record(pt)
            except Exception as e:
                exc = type(e).__name__
            w = side.pipe.written[before:]
            store.append(b"".join(w))
            do(f"send {role} {hx(pt)} {hx(sealed)}", side, exc)
            # oracle: the wire image is the documented one (nonce = counter, direction key, 4-byte length)
            want = spec_frame(role, i, pt)
            if b"".join(w) != want or len(w) != 2 or exc:
                viol.append(("wire-not-spec", f"send_record #{i} by {role} wrote {[x[:30].hex() for x in w]} exc={exc}; "
                                              f"the transit wire format wants {want[:30].hex()}… ({len(want)} bytes)"))

    start(snd_role)
    frames, other_frames = [], []
    send_all(snd, snd_role, recs, frames)
    if not reflect and leftover_n == 0:
        start(rcv_role)
    if other and not reflect:
        if leftover_n:
            raise ValueError("other_recs with leftover not supported")
        send_all(sides[rcv_role], rcv_role, other, other_frames)

    manip = case.get("manip")
    stream, seal_lines = apply_manip(manip, frames, other_frames, snd_role, rnd)
    for sl in seal_lines:
        lines.append(sl)
        exp.append("ok")
    tags.append("dir:" + snd_role + ("-reflect" if reflect else ""))
    tags.append("manip:" + (manip[0] if manip else "none"))
    tags.append("chunk:" + (case["chunk"].split(":")[0] if isinstance(case["chunk"], str) else "cuts"))
    if case.get("backlog"):
        tags.append(f"backlog:{case['backlog']}:{len(recs)}")
    if case.get("cls"):
        tags.append("class:thr-" + case["cls"])

    # ---- feed
    excs = []          # exception names raised by dataReceived, in order
    fed = b""
    lost_called = False
    rcv.pipe.hold = bool(case.get("hold"))
    if rcv.pipe.hold:
        tags.append("transport:holding")

    def app_action(a):
        nonlocal lost_called
        a = normalise_action(a)
        k = a[0]
        if k == "call":
            rcv.run_script(a[1])
            do(f"call {rcv_role} {encode_script(a[1])}", rcv)
            tags.extend(script_tags(a[1]))
        elif k == "resume":          # top-level resumeProducing() on a transport that may hold bytes
            rcv.run_script([["u"]])
            do(f"resume {rcv_role}", rcv)
        elif k == "attachready":     # top-level connectConsumer with a consumer that resumes in registerProducer()
            rcv.run_script([["c", a[1], "ready", a[2]]])
            do(f"attachready {rcv_role} {'n' if a[1] is None else a[1]} {encode_script(a[2])}", rcv)
            tags.extend(script_tags(a[2], 1))
        elif k == "lost":
            if not lost_called:
                lost_called = True
                rcv.lost_at_id = rcv.next_id
                for rec in rcv.consumers:
                    h = rec["holder"]
                    rec["pending_at_loss"] = (rec["d"] is not None and "done" not in h and "fail" not in h
                                              and not rec.get("detached"))
                # the way a real Twisted transport reports it: Failure(ConnectionDone) for an orderly FIN,
                # Failure(ConnectionLost) for a reset; "none" = no argument, as direct callers do
                why = a[1] if len(a) > 1 else case.get("loss", "done")
                if why == "done":
                    rcv.conn.connectionLost(Failure(tw_error.ConnectionDone()))
                elif why == "reset":
                    rcv.conn.connectionLost(Failure(tw_error.ConnectionLost()))
                elif why == "none":
                    rcv.conn.connectionLost()
                else:
                    raise ValueError(a)
                do(f"lost {rcv_role} {why}", rcv)
                tags.append("loss:" + why)
        else:
            raise ValueError(a)
        tags.append("app:" + k)

    app = {}
    for pos, a in case.get("app", []):
        app.setdefault(pos, []).append(a)
    for a in app.get(-1, []):
        if leftover_n == 0:
            app_action(a)

    if leftover_n and not reflect:
        left = stream[:leftover_n]
        stream_rest = stream[leftover_n:]
        exc = start(rcv_role, left)
        fed += left
        if exc:
            excs.append(exc)
        for a in app.get(-1, []):
            app_action(a)
    else:
        stream_rest = stream
    chunks = chunk_stream(stream_rest, case["chunk"], frames, rnd)
    extra = bytes.fromhex(case.get("extra", ""))
    if extra:
        chunks = chunks + [extra]      # more bytes after the (manipulated) stream, e.g. a valid-looking tail
    for ci, ch in enumerate(chunks):
        exc = None
        if not lost_called and rcv.pipe.hold and rcv.pipe.paused:
            rcv.pipe.held.append(ch)
            do(f"hold {rcv_role} {hx(ch)}", rcv)
        elif not lost_called:
            try:
                rcv.conn.dataReceived(ch)
            except Exception as e:
                exc = type(e).__name__
                excs.append(exc)
            rcv.pipe.fed += ch
            do(f"data {rcv_role} {hx(ch)}", rcv, exc)
        for a in app.get(ci, []):
            app_action(a)
    for a in app.get("end", []):
        app_action(a)
    # the reactor reports the loss of a connection we dropped
    dropped = rcv.pipe.lost > 0
    if dropped and not lost_called:
        app_action(["lost"])
    late = case.get("late_reads", 0)
    for _ in range(late):
        app_action(["call", [chain(0)]])

    # ---- the oracle: the property on what the real code did
    c = rcv.conn
    all_ev = rcv.all_ev
    closed = rcv.closed
    surfaced = list(rcv.surf) + [bytes(x) for x in c._inbound_records]

    sent = other if reflect and False else recs
    hung = c.state == "hung up"

    def short(bs):
        return [f"{len(b)}:{b[:6].hex()}" for b in bs[:6]]

    if surfaced != sent[:len(surfaced)]:
        viol.append(("not-a-prefix", f"records surfaced {short(surfaced)} are not a prefix of the records sent {short(sent)} "
                                     f"(manip={manip}, reflect={reflect})"))
    # what an honest framing of the bytes actually fed contains (directly or when the transport released what it held)
    fed = fed + rcv.pipe.fed
    excs = excs + rcv.pipe.excs
    got_frames = split_frames(fed)
    honest = frames if not reflect else []     # reflected frames are sealed for the other direction: none is honest here
    first_bad = None
    for j, f in enumerate(got_frames):
        if j >= len(honest) or f != honest[j]:
            first_bad = j
            break
    if not closed:
        if first_bad is None:
            # every complete frame that arrived is the honest next one: all of them must surface, no drop
            want = sent[:len(got_frames)] if not reflect else []
            if surfaced != want or hung or dropped or excs:
                viol.append(("lossless", f"unmanipulated frames ({len(got_frames)} complete): surfaced {short(surfaced)} "
                                         f"want {short(want)} hung={hung} dropped={dropped} exc={excs}"))
        else:
            want = sent[:first_bad] if not reflect else []
            if surfaced != want:
                viol.append(("manipulated-delivered", f"frame #{first_bad} on the wire is not the one sent; surfaced "
                                                      f"{short(surfaced)} want exactly {short(want)} (manip={manip})"))
            if not hung or not dropped or not c._error:
                viol.append(("not-dropped", f"frame #{first_bad} on the wire is not the one sent but state={c.state!r} "
                                            f"loseConnection calls={rcv.pipe.lost} _error={c._error!r} (manip={manip})"))
            if rcv.pipe.lost > 1 + (1 if closed else 0):
                viol.append(("dropped-twice", f"loseConnection called {rcv.pipe.lost} times"))
    # pending reads fail on loss: every Deferred handed out before connectionLost has fired
    if lost_called:
        n_before = rcv.lost_at_id
        unfired = [i for i in range(n_before) if i not in rcv.read_result]
        if unfired:
            viol.append(("read-never-fails", f"reads {unfired} were pending at connectionLost and never fired"))
        bad = [i for i, r in rcv.read_result.items() if r[0] == "err" and r[1] != "ConnectionClosed"]
        if bad:
            viol.append(("read-wrong-error", f"reads {bad} failed with {[rcv.read_result[i][1] for i in bad]}"))
        for rec in rcv.consumers:
            h = rec["holder"]
            if rec["d"] is not None and "done" not in h and "fail" not in h and not rec["after_lost"] \
                    and not rec.get("detached"):
                viol.append(("consumer-never-fails", "consumer Deferred pending at connectionLost never fired"))
            if rec.get("pending_at_loss") and (h.get("fail") != "ConnectionClosed" or "done" in h):
                total = sum(len(x) for x in rec["obj"].data)
                viol.append(("consumer-completes-on-loss",
                             f"connection lost ({case.get('loss', 'done')}) with the consumer Deferred outstanding after {total} of "
                             f"expected={rec['expected']} bytes: it must errback with ConnectionClosed, but "
                             f"done={h.get('done')} fail={h.get('fail')}"))
    # what the application observed is what left the connection: the records reads obtained plus the records
    # consumers were given (minus the empty kick of expected=0) are exactly the surfaced ones …
    got_reads = [rcv.read_result[i][1] for i in sorted(rcv.read_result) if rcv.read_result[i][0] == "ok"]
    got_writes = []
    for rec in rcv.consumers:
        data = list(rec["obj"].data)
        if rec["expected"] == 0 and data and data[0] == b"":
            data = data[1:]
        got_writes += data
    if sorted(got_reads + got_writes) != sorted(rcv.surf):
        viol.append(("observed-differs", f"reads obtained {short(got_reads)} and consumers {short(got_writes)} but the records "
                                         f"that left the connection are {short(rcv.surf)}"))
    # … reads obtain them in the order the reads were issued, consumers in write order
    if not is_subsequence(got_reads, rcv.surf):
        ids = [i for i in sorted(rcv.read_result) if rcv.read_result[i][0] == "ok"]
        viol.append(("reads-out-of-order", f"reads {ids} (in issue order) obtained {short(got_reads)}: not in the order "
                                           f"the records were sent {short(rcv.surf)}"))
    if not is_subsequence(got_writes, rcv.surf):
        viol.append(("writes-out-of-order", f"consumers were given {short(got_writes)}: not in the order sent {short(rcv.surf)}"))
    # consumer mode: same bytes, fires exactly at the threshold
    for rec in rcv.consumers:
        h, ex, obj = rec["holder"], rec["expected"], rec["obj"]
        total = sum(len(x) for x in obj.data)
        if "done" in h:
            last = len(obj.data[-1]) if obj.data else 0
            if h["done"] != total or total < ex or (total - last >= ex and not (ex == 0 and total == 0)):
                viol.append(("consumer-threshold", f"consumer Deferred fired with {h['done']} after {total} bytes "
                                                   f"(last write {last}) for expected={ex}"))
        elif ex is not None and total >= ex and "fail" not in h:
            viol.append(("consumer-threshold", f"{total} bytes written >= expected={ex} but the Deferred did not fire"))
        elif ex is not None and total >= ex and "fail" in h:
            viol.append(("consumer-threshold", f"{total} bytes written >= expected={ex} but the Deferred failed"))
        if rec["mode"] == "file":
            if rcv.progress != sum(len(x) for r2 in rcv.consumers if r2["mode"] == "file" for x in r2["obj"].data):
                viol.append(("consumer-bytes", "progress() total differs from the bytes written"))
    # ---- the threshold clause, consumer by consumer, on what each consumer object itself saw (consumer_threshold_exact):
    # which records it was given, where it was unregistered, when and with what its Deferred fired
    viol.extend(threshold_oracle(rcv, tags))
    if rcv.consumers and any(r["mode"] == "file" for r in rcv.consumers):
        hh = hashlib.sha256()
        for r2 in rcv.consumers:
            if r2["mode"] == "file":
                for x in r2["obj"].data:
                    hh.update(x)
        if hh.digest() != rcv.hasher.digest():
            viol.append(("consumer-bytes", "hasher saw different bytes than the file"))
    if hung:
        tags.append("hung:" + (type(c._error).__name__ if c._error else "?"))
    for e in excs:
        tags.append("exc:" + e)
    tags.append("surfaced:" + ("0" if not surfaced else "1-3" if len(surfaced) <= 3 else "4+"))
    nontrivial = bool(surfaced) or hung or bool(rcv.read_result)
    return Result(lines, exp, viol, tags, nontrivial=nontrivial)



# ---------------------------------------------------------------------------
# several live Connection objects in one process (case kind "links")
#
# 1..3 links, each with its own transit key and two real Connection objects (both ends live in this process), created
# at any moment of the schedule (a later session after an earlier one); records travel in both directions of every
# link; sends, deliveries (any chunking), application scripts, losses and tampering of all links are interleaved in one
# schedule.  Nothing on the Connection objects is replaced or wrapped (Side(spy=False)).  Every schedule step is one
# model line on the one connection it names; the model is the product of the per-connection models (WV.C06.pstep).
#
#   ["open", L]                      both ends of link L are built and negotiated (real handshake)
#   ["send", L, role, size, seed]    that end calls send_record(); the bytes wait on the wire for the other end
#   ["deliver", L, role, n]          up to n (None: all) of the bytes waiting for that end arrive in one dataReceived
#   ["call", L, role, script]        application code calls the API of that end (scripts as in the one-link cases)
#   ["lost", L, role, why]           connectionLost(reason) on that end
#   ["tamper", L, role, manip]       the bytes waiting for that end are manipulated by someone without the key:
#        ["flip", unit, off, bit] | ["cross", L2, role2, idx, at] (a frame sealed for another connection - another link,
#        another key) | ["own", idx, at] (a frame this end sealed itself, reflected) | ["replay", idx, at]

def conn_name(link, role):
    return role + ("" if link == 0 else str(link))


class LinkEnd:
    def __init__(self, link, role):
        self.link, self.role = link, role
        self.name = conn_name(link, role)
        self.key = link_key(link)
        self.side = Side(role, key=self.key, spy=False)
        self.units = []          # what is on the wire for this end: frames (honest, altered, injected); [0] may be a remainder
        self.partial = False     # units[0] is the rest of a frame whose beginning has been delivered
        self.hist = []           # the honest frames its peer wrote for it, in order
        self.sent = []           # the records its peer passed to send_record (successfully)
        self.fed = b""
        self.excs = []
        self.lost_called = False
        self.seen_foreign = 0    # events that appeared on this end during an operation on another connection


def run_links(case):
    lines, exp, viol, tags = [], [], [], []
    ends = {}                 # (link, role) -> LinkEnd, in order of creation
    why_default = case.get("loss", "done")
    tags.append("links:class-" + case.get("cls", "?"))

    def peer(e):
        return ends[(e.link, "R" if e.role == "S" else "S")]

    def do(line, e, exc=None):
        lines.append(line)
        exp.append(e.side.summary(exc))
        e.seen_foreign = 0          # its own events were taken by summary()
        # links_independent on the real objects: an operation on one connection makes no other connection do anything
        for o in ends.values():
            if o is not e and len(o.side.ev) > o.seen_foreign:
                new = o.side.ev[o.seen_foreign:]
                o.seen_foreign = len(o.side.ev)
                viol.append(("link-disturbed", f"`{line[:60]}` is an operation on connection {e.name}, but connection {o.name} "
                                               f"(link {o.link}, another Connection object) did {new[:4]}"))
                tags.append("links:disturbed")

    def report_loss(e, why):
        if e.lost_called:
            return
        e.lost_called = True
        sd = e.side
        sd.lost_at_id = sd.next_id
        for rec in sd.consumers:
            h = rec["holder"]
            rec["pending_at_loss"] = (rec["d"] is not None and "done" not in h and "fail" not in h and not rec.get("detached"))
        if why == "done":
            sd.conn.connectionLost(Failure(tw_error.ConnectionDone()))
        elif why == "reset":
            sd.conn.connectionLost(Failure(tw_error.ConnectionLost()))
        else:
            why = "none"
            sd.conn.connectionLost()
        do(f"lost {e.name} {why}", e)
        tags.append("links:loss")

    def after(e):
        # the reactor reports the loss of a connection the code dropped (or the application closed)
        if e.side.pipe.lost > 0 and not e.lost_called:
            report_loss(e, why_default)

    def others_state():
        # what is queued / waiting elsewhere when something happens here (distribution only)
        return [(o, len(o.side.conn._inbound_records), len(o.side.conn._waiting_reads)) for o in ends.values()]

    for op in case["sched"]:
        k = op[0]
        if k == "open":
            L = op[1]
            if (L, "S") in ends:
                continue
            if any(not o.lost_called and o.side.conn._inbound_records for o in ends.values()):
                tags.append("links:opened-while-records-queued-elsewhere")
            if any(o.lost_called and o.side.conn._inbound_records for o in ends.values()):
                tags.append("links:session-after-one-that-ended-with-unread-records")
            for role in ("S", "R"):
                e = LinkEnd(L, role)
                ends[(L, role)] = e
                exc = e.side.start(b"")
                do(f"start {e.name} -", e, exc)
            continue
        e = ends.get((op[1], op[2]))
        if e is None:
            continue
        sd = e.side
        if k == "send":
            if e.lost_called or sd.pipe.lost:
                continue            # a transport that is gone carries nothing
            pt = payload(op[3], op[4])
            pr = peer(e)
            nonce = sd.conn.send_nonce
            sealed = spec_sealed(e.role, nonce, pt, e.key)
            before = len(sd.pipe.written)
            exc = None
            try:
                sd.conn.send_record(pt)
            except Exception as x:
                exc = type(x).__name__
            w = sd.pipe.written[before:]
            do(f"send {e.name} {hx(pt)} {hx(sealed)}", e, exc)
            want = spec_frame(e.role, len(pr.sent), pt, e.key)
            if b"".join(w) != want or len(w) != 2 or exc:
                viol.append(("wire-not-spec", f"send_record #{len(pr.sent)} by {e.name} wrote {[x[:30].hex() for x in w]} exc={exc}; "
                                              f"the transit wire format (this link's key) wants {want[:30].hex()}… ({len(want)} bytes)"))
            if not exc:
                pr.sent.append(pt)
                pr.hist.append(b"".join(w))
                pr.units.append(b"".join(w))
            after(e)
        elif k == "deliver":
            if e.lost_called or not e.units:
                continue
            n = op[3]
            total = sum(len(u) for u in e.units)
            n = total if n is None else max(1, min(n, total))
            ch = b""
            e.partial = False
            while len(ch) < n:
                u = e.units.pop(0)
                take = n - len(ch)
                ch += u[:take]
                if take < len(u):
                    e.units.insert(0, u[take:])
                    e.partial = True
            for o, q, wt in others_state():
                if o is not e and not o.lost_called:
                    if q:
                        tags.append("links:arrival-while-records-queued-on-another-connection")
                    if wt:
                        tags.append("links:arrival-while-read-pending-on-another-connection")
                    if o.side.conn._consumer is not None:
                        tags.append("links:arrival-while-consumer-attached-on-another-connection")
            exc = None
            try:
                sd.conn.dataReceived(ch)
            except Exception as x:
                exc = type(x).__name__
                e.excs.append(exc)
            e.fed += ch
            do(f"data {e.name} {hx(ch)}", e, exc)
            after(e)
        elif k == "call":
            if any(a[0] == "r" for a in op[3]):
                for o, q, wt in others_state():
                    if o is not e and q:
                        tags.append("links:read-while-records-queued-on-" + ("the-other-end" if o.link == e.link else "another-link")
                                    + ("-of-an-ended-session" if o.lost_called else ""))
            if any(a[0] == "c" for a in op[3]):
                if any(o is not e and q for o, q, wt in others_state()):
                    tags.append("links:consumer-attached-while-records-queued-elsewhere")
            sd.run_script(op[3])
            do(f"call {e.name} {encode_script(op[3])}", e)
            tags.extend("links:" + t for t in script_tags(op[3]))
            after(e)
        elif k == "lost":
            report_loss(e, op[3])
        elif k == "tamper":
            m = op[3]
            lo = 1 if e.partial and e.units else 0     # injected frames go to a frame boundary, not into a frame under way
            if m[0] == "flip":
                if e.units:
                    i = m[1] % len(e.units)
                    b = bytearray(e.units[i])
                    b[m[2] % len(b)] ^= 1 << (m[3] % 8)
                    e.units[i] = bytes(b)
                    tags.append("links:tamper-flip")
            else:
                if m[0] == "cross":
                    src = ends.get((m[1], m[2]))
                    pool = src.hist if src is not None and src is not e else []
                    idx, at = m[3], m[4]
                    tag = "links:tamper-frame-of-another-" + ("link" if src is not None and src.link != e.link else "direction")
                elif m[0] == "own":
                    pool, idx, at = peer(e).hist, m[1], m[2]
                    tag = "links:tamper-own-frame-reflected"
                elif m[0] == "replay":
                    pool, idx, at = e.hist, m[1], m[2]
                    tag = "links:tamper-replay"
                else:
                    raise ValueError(op)
                if pool:
                    pos = lo + at % (len(e.units) - lo + 1)
                    e.units.insert(pos, pool[idx % len(pool)])
                    tags.append(tag)
        else:
            raise ValueError(op)

    # ---- everything still parked is read out (through the API, nothing else): one read more than there are records
    for e in ends.values():
        sd = e.side
        if sd.conn._consumer is not None:
            continue
        for _ in range(200):
            rid = sd.next_id
            sd.run_script([["r", []]])
            do(f"call {e.name} r0", e)
            after(e)
            if sd.read_result.get(rid, ("", ""))[0] != "ok":
                break

    # ---- the oracle, connection by connection: exactly `delivery_exact` / `tamper_prefix` for ITS OWN link
    def short(bs):
        return [f"{len(b)}:{b[:6].hex()}" for b in bs[:6]]
    origin = {}
    for o in ends.values():
        for j, r in enumerate(o.sent):
            if r:
                origin.setdefault(bytes(r), []).append(f"record #{j} sealed for {o.name}")
    nontrivial = False
    for e in ends.values():
        sd, c = e.side, e.side.conn
        surfaced = list(sd.surf) + [bytes(x) for x in c._inbound_records]
        sent = e.sent
        hung = c.state == "hung up"
        dropped = sd.pipe.lost > 0
        if surfaced != sent[:len(surfaced)]:
            j = next((i for i, r in enumerate(surfaced) if i >= len(sent) or r != sent[i]), len(surfaced))
            bad = surfaced[j] if j < len(surfaced) else b""
            where = [w for w in origin.get(bytes(bad), []) if not w.endswith(" " + e.name)]
            if where:
                viol.append(("foreign-record",
                             f"connection {e.name} (link {e.link}) surfaced {short(surfaced)}; its peer sealed {short(sent)} for it: "
                             f"item #{j} ({len(bad)}:{bad[:6].hex()}) is {where[0]} - a record its peer never sent"))
            else:
                viol.append(("not-a-prefix", f"connection {e.name}: records surfaced {short(surfaced)} are not a prefix of the "
                                             f"records its peer sent {short(sent)}"))
        got_frames = split_frames(e.fed)
        first_bad = None
        for j, f in enumerate(got_frames):
            if j >= len(e.hist) or f != e.hist[j]:
                first_bad = j
                break
        if not sd.closed:
            if first_bad is None:
                want = sent[:len(got_frames)]
                if surfaced != want or hung or dropped or e.excs:
                    viol.append(("lossless", f"connection {e.name}: unmanipulated frames ({len(got_frames)} complete): surfaced "
                                             f"{short(surfaced)} want {short(want)} hung={hung} dropped={dropped} exc={e.excs}"))
            else:
                want = sent[:first_bad]
                if surfaced != want:
                    viol.append(("manipulated-delivered", f"connection {e.name}: frame #{first_bad} on the wire is not the one its "
                                                          f"peer sent; surfaced {short(surfaced)} want exactly {short(want)}"))
                if not hung or not dropped or not c._error:
                    viol.append(("not-dropped", f"connection {e.name}: frame #{first_bad} on the wire is not the one its peer sent "
                                                f"but state={c.state!r} loseConnection calls={sd.pipe.lost} _error={c._error!r}"))
                if sd.pipe.lost > 1:
                    viol.append(("dropped-twice", f"connection {e.name}: loseConnection called {sd.pipe.lost} times"))
        if e.lost_called:
            n_before = sd.lost_at_id
            unfired = [i for i in range(n_before) if i not in sd.read_result]
            if unfired:
                viol.append(("read-never-fails", f"connection {e.name}: reads {unfired} were pending at connectionLost and never fired"))
            badr = [i for i, r in sd.read_result.items() if r[0] == "err" and r[1] != "ConnectionClosed"]
            if badr:
                viol.append(("read-wrong-error", f"connection {e.name}: reads {badr} failed with {[sd.read_result[i][1] for i in badr]}"))
            for rec in sd.consumers:
                h = rec["holder"]
                if rec["d"] is not None and "done" not in h and "fail" not in h and not rec["after_lost"] and not rec.get("detached"):
                    viol.append(("consumer-never-fails", f"connection {e.name}: consumer Deferred pending at connectionLost never fired"))
                if rec.get("pending_at_loss") and (h.get("fail") != "ConnectionClosed" or "done" in h):
                    viol.append(("consumer-completes-on-loss",
                                 f"connection {e.name}: lost with the consumer Deferred outstanding (expected={rec['expected']}): it "
                                 f"must errback with ConnectionClosed, but done={h.get('done')} fail={h.get('fail')}"))
        ttags = []
        for sig, msg in threshold_oracle(sd, ttags):
            viol.append((sig, f"connection {e.name}: {msg}"))
        tags.extend(t for t in ttags if t in ("thr:attach-over-backlog", "thr:reached-exact", "thr:reached-over", "thr:pending",
                                              "thr:detached-by-app", "thr:reattach-after-detach"))
        if hung:
            tags.append("links:hung:" + (type(c._error).__name__ if c._error else "?"))
        nontrivial = nontrivial or bool(surfaced) or hung
    nl = len({e.link for e in ends.values()})
    tags.append(f"links:{nl}-links-{len(ends)}-connections")
    dirs = sum(1 for e in ends.values() if e.sent)
    tags.append(f"links:{dirs}-directions-carry-records")
    tags = sorted(set(tags))     # per case: did it happen at all
    return Result(lines, exp, viol, tags, nontrivial=nontrivial)

# ---------------------------------------------------------------------------
# generators

SIZES = [0, 1, 15, 16, 65535, 65536, 70000]
SMALL = [0, 1, 2, 15, 16, 17, 40, 100]


def rand_recs(rng, big_ok=True, maxn=12):
    n = rng.choice([0, 1, 1, 2, 3, 3, 4, 5, 8, maxn])
    out = []
    nbig = 0
    for _ in range(n):
        if big_ok and nbig < 2 and rng.random() < 0.08:
            out.append([rng.choice(SIZES[4:]), rng.randrange(1000)])
            nbig += 1
        else:
            out.append([rng.choice(SMALL) if rng.random() < 0.7 else rng.randrange(0, 300), rng.randrange(1000)])
    return out


def rand_script(rng, depth=0, budget=None):
    """a random tree of API calls; `budget` bounds the total number of nodes"""
    budget = budget if budget is not None else [rng.choice([1, 2, 3, 5, 8, 12])]
    acts = []
    n = rng.choice([0, 1, 1, 2, 2, 3]) if depth else rng.choice([1, 1, 2, 3])
    for _ in range(n):
        if budget[0] <= 0:
            break
        budget[0] -= 1
        k = rng.choice(["r", "r", "r", "r", "c", "c", "d", "x", "p", "u"] if depth < 4 else ["r", "d", "p", "u"])
        if k == "x" and rng.random() < 0.6:
            k = "r"
        if k == "r":
            acts.append(["r", rand_script(rng, depth + 1, budget)])
        elif k == "c":
            ex = rng.choice([None, 0, 0, 1, 3, 16, 17, 40, 56, 100, rng.randrange(0, 200)])
            acts.append(["c", ex, rng.choice(["file", "consumer", "fc"]), rand_script(rng, depth + 1, budget)])
        else:
            acts.append([k])
    return acts


def rand_app(rng, nchunks):
    acts = []
    mode = rng.choice(["reads-first", "reads-late", "chain", "consume", "file", "mixed", "none",
                       "script", "script", "script", "pipelined", "flow", "flow"])
    pos = lambda: rng.choice([-1, -1, "end"] + list(range(max(nchunks, 1))))  # noqa: E731
    if mode == "reads-first":
        for _ in range(rng.randrange(1, 15)):
            acts.append([-1, ["read", 0]])
    elif mode == "reads-late":
        for _ in range(rng.randrange(1, 15)):
            acts.append(["end", ["read", 0]])
    elif mode == "chain":
        acts.append([pos(), ["read", rng.randrange(1, 14)]])
    elif mode in ("consume", "file"):
        ex = rng.choice([None, 0, 1, 16, 17, 56, 100, 300, 65536, rng.randrange(0, 400)])
        acts.append([pos(), ["consume", ex, "file" if mode == "file" else "consumer"]])
        if rng.random() < 0.3:
            acts.append([pos(), ["consume", rng.choice([None, 5]), "consumer"]])   # maybe RuntimeError
        if rng.random() < 0.4:
            acts.append(["end", ["read", rng.randrange(0, 3)]])
    elif mode == "mixed":
        for _ in range(rng.randrange(1, 6)):
            a = rng.choice([["read", 0], ["read", 0], ["read", rng.randrange(1, 4)],
                            ["consume", rng.choice([None, 0, 1, 40, 150]), rng.choice(["file", "consumer"])]])
            acts.append([pos(), a])
    elif mode == "script":
        # attach / detach / re-attach / re-entrant reads from inside callbacks, at arbitrary points of the stream
        for _ in range(rng.randrange(1, 5)):
            acts.append([pos(), ["call", rand_script(rng)]])
    elif mode == "flow":
        # back-pressure: a consumer that pauses in every write(), or a read callback that pauses the connection;
        # somebody resumes later (possibly never)
        if rng.random() < 0.5:
            acts.append([-1, ["call", [["c", rng.choice([None, None, 5, 40, 200]), "fc", [chain(rng.randrange(0, 2))]]]]])
        else:
            acts.append([-1, ["call", [["r", [["p"], chain(rng.randrange(0, 3))]]]]])
            if rng.random() < 0.4:
                acts.append([-1, ["call", [chain(0)]]])
        for _ in range(rng.randrange(0, 3)):
            acts.append([pos(), ["call", [["u"]] + ([chain(0)] if rng.random() < 0.3 else [])]])
        acts.append(["end", ["call", [["u"]]]])
    elif mode == "pipelined":
        # several reads outstanding at once, each of whose callbacks reads again (and maybe twice)
        for _ in range(rng.randrange(2, 5)):
            kids = [chain(rng.randrange(0, 3)) for _ in range(rng.choice([1, 1, 2]))]
            acts.append([-1, ["call", [["r", kids]]]])
        if rng.random() < 0.5:
            acts.append([pos(), ["call", [["c", rng.choice([1, 20, 60]), "consumer", [chain(1)]]]]])
    if rng.random() < 0.15:
        acts.append([pos(), ["lost"]])
    if rng.random() < 0.08:
        acts.append([pos(), ["close"]])
    return acts


def rand_manip(rng):
    k = rng.choice(["flip", "flip", "flipat", "delete", "dup", "replay", "swap", "trunc", "insbytes", "insframe",
                    "hugelen", "crossdir", "keyholder"])
    r = rng.randrange
    if k == "flip":
        # offsets aimed at the length prefix, the nonce, the MAC, the body
        return ["flip", r(100), rng.choice([r(4), 4 + r(24), 28 + r(16), 44 + r(200), r(400)]), r(8)]
    if k == "flipat":
        return ["flipat", r(10**6), r(8)]
    if k in ("delete", "dup", "swap"):
        return [k, r(100)]
    if k == "replay":
        return ["replay", r(100), r(100)]
    if k == "trunc":
        return ["trunc", r(10**6)]
    if k == "insbytes":
        return ["insbytes", r(10**6), bytes(r(256) for _ in range(rng.choice([1, 1, 2, 4, 5, 30, 60]))).hex()]
    if k == "insframe":
        ln = rng.choice([0, 0, 1, 5, 23, 24, 25, 39, 40, 41, 60])
        body = bytes(r(256) for _ in range(ln))
        if ln and rng.random() < 0.5:     # make the nonce field look right for some position
            body = (be(r(4), 24) + body)[:max(ln, 1)]
        return ["insframe", r(100), body.hex()]
    if k == "hugelen":
        return ["hugelen", r(100), r(1000)]
    if k == "crossdir":
        return ["crossdir", r(100), r(100)]
    return ["keyholder", r(100), rng.choice([0, 1, 2, 3, 5, 2**64, 2**192 - 1]), rng.choice([0, 1, 16, 50])]


def gen_case(rng, adversarial):
    recs = rand_recs(rng, big_ok=not adversarial or rng.random() < 0.2)
    c = dict(kind="stream", dir=rng.choice(["S", "R"]), recs=recs,
             chunk=rng.choice(["all", "one", "aligned", "rand", "rand"]), mseed=rng.randrange(10**6))
    if c["chunk"] == "one" and sum(s for s, _ in recs) > 600:
        c["chunk"] = "rand"
    if adversarial:
        c["manip"] = rand_manip(rng)
        if c["manip"][0] == "crossdir":
            c["other_recs"] = [[rng.choice(SMALL), rng.randrange(1000)] for _ in range(rng.randrange(1, 4))]
        if rng.random() < 0.1:
            c["reflect"] = True
            c["manip"] = None
        if rng.random() < 0.5:
            # something that looks like traffic after the manipulation point
            c["extra"] = rng.choice(["00000000", "0000000100", bytes(rng.randrange(256) for _ in range(50)).hex(),
                                     (be(40, 4) + be(1, 24) + bytes(16)).hex()])
    else:
        c["manip"] = None
        if rng.random() < 0.15 and c["dir"] == "S":
            c["leftover"] = rng.randrange(1, 120)
    nchunks = 6
    c["app"] = rand_app(rng, nchunks)
    if rng.random() < 0.2:
        c["late_reads"] = rng.randrange(1, 3)
    c["loss"] = rng.choice(["done", "done", "reset", "none"])
    if rng.random() < 0.12:
        c["hold"] = True
        c["app"] = rand_hold_app(rng)
        c.pop("late_reads", None)
        if c["chunk"] in ("all", "one"):
            c["chunk"] = "aligned"
    return c


def corpus():
    out = []
    three = [[5, 1], [0, 2], [17, 3]]
    # honest, every size class, every chunking class, both directions, both read modes
    for d in ("S", "R"):
        for ch in ("all", "one", "aligned"):
            out.append(dict(kind="stream", dir=d, recs=three, chunk=ch, manip=None, app=[[-1, ["read", 5]]]))
            out.append(dict(kind="stream", dir=d, recs=three, chunk=ch, manip=None, app=[[-1, ["consume", 22, "file"]]]))
    out.append(dict(kind="stream", dir="S", recs=[[s, i] for i, s in enumerate(SIZES)], chunk="rand", mseed=5, manip=None,
                    app=[["end", ["read", 9]]]))
    out.append(dict(kind="stream", dir="R", recs=[[70000, 1], [65536, 2]], chunk="aligned", manip=None,
                    app=[[-1, ["consume", 70000 + 65536, "file"]]]))
    # the witnesses of the theorems: delete / replay / swap / flip / reflect / cross-direction / key-holder wrong nonce
    for m in (["delete", 1], ["dup", 0], ["swap", 0], ["replay", 0, 1], ["flip", 1, 0, 0], ["flip", 1, 3, 0],
              ["flip", 1, 4, 7], ["flip", 1, 27, 0], ["flip", 1, 28, 0], ["flip", 1, 43, 0], ["flip", 1, 44, 0],
              ["flip", 0, 48, 3], ["trunc", 60], ["insframe", 0, ""], ["insframe", 1, "00"], ["insframe", 3, "00" * 24],
              ["insframe", 1, "00" * 23 + "01"], ["insframe", 1, "00" * 23 + "01" + "00" * 15],
              ["insframe", 1, "00" * 23 + "01" + "00" * 16], ["hugelen", 1, 0], ["keyholder", 1, 2, 5],
              ["keyholder", 0, 1, 0], ["keyholder", 3, 0, 1], ["insbytes", 0, "00"], ["insbytes", 49, "ff" * 4]):
        for app in ([[-1, ["read", 9]]], [[-1, ["consume", 1000, "consumer"]]]):
            out.append(dict(kind="stream", dir="S", recs=three, chunk="all", manip=m, app=app, extra="00000000"))
    out.append(dict(kind="stream", dir="R", recs=three, other_recs=[[5, 1], [3, 3]], chunk="all", manip=["crossdir", 0, 0],
                    app=[[-1, ["read", 9]]]))
    out.append(dict(kind="stream", dir="R", recs=three, other_recs=[[5, 1], [3, 3]], chunk="one", manip=["crossdir", 1, 1],
                    app=[[-1, ["read", 9]]]))
    for d in ("S", "R"):
        out.append(dict(kind="stream", dir=d, recs=three, chunk="all", manip=None, reflect=True, app=[[-1, ["read", 2]]]))
    # leftover behind the handshake; reads asked after the loss; close with pending reads
    out.append(dict(kind="stream", dir="S", recs=three, chunk="rand", mseed=3, manip=None, leftover=60, app=[[-1, ["read", 5]]]))
    out.append(dict(kind="stream", dir="S", recs=three, chunk="all", manip=["flip", 0, 30, 1], leftover=200,
                    app=[[-1, ["read", 5]]]))
    out.append(dict(kind="stream", dir="S", recs=three, chunk="aligned", manip=None,
                    app=[[-1, ["read", 0]], [-1, ["read", 0]], [-1, ["read", 0]], [-1, ["read", 0]], [1, ["lost"]]],
                    late_reads=2))
    out.append(dict(kind="stream", dir="S", recs=three, chunk="aligned", manip=None,
                    app=[[-1, ["read", 0]], [-1, ["read", 0]], [0, ["close"]]]))
    out.append(dict(kind="stream", dir="S", recs=three, chunk="aligned", manip=None,
                    app=[[-1, ["consume", 0, "file"]], ["end", ["consume", 5, "consumer"]], ["end", ["consume", 1, "consumer"]]]))
    out.append(dict(kind="stream", dir="S", recs=three, chunk="aligned", manip=None,
                    app=[["end", ["consume", 5, "file"]], ["end", ["read", 3]]]))
    out.append(dict(kind="stream", dir="S", recs=three, chunk="aligned", manip=["delete", 2],
                    app=[[-1, ["consume", 100, "file"]]]))
    # back-pressure x tampering, frames coalesced into one segment (the manipulated frame is in hand when the pause happens)
    seven = [[3, i] for i in range(7)]
    FC = lambda ex, kids: ["c", ex, "fc", kids]    # noqa: E731
    flows = [
        [[-1, ["call", [FC(None, [])]]], ["end", ["call", [["u"]]]]],
        [[-1, ["call", [FC(12, [["r", []]])]]], ["end", ["call", [["u"]]]]],
        [[-1, ["call", [["r", [["p"], ["r", []]]]]]], ["end", ["call", [["u"], ["r", []], ["r", []]]]]],
        [[-1, ["call", [["r", [["p"]]]]]], [-1, ["call", [["r", [["r", []]]]]]], ["end", ["call", [["u"]]]], ["end", ["call", [["r", []]]]]],
        [[-1, ["call", [["p"]]]], [-1, ["call", [["r", []]]]], ["end", ["call", [["u"], ["u"]]]]],
    ]
    for app in flows:
        for m in (None, ["flip", 3, 50, 2], ["flip", 1, 10, 0], ["delete", 2], ["dup", 0], ["swap", 3], ["insframe", 1, ""],
                  ["trunc", 100]):
            for ch in ("all", "rand"):
                out.append(dict(kind="stream", dir="S" if m is None or m[1] % 2 else "R", recs=seven, chunk=ch, mseed=7,
                                manip=m, app=app))
    # re-entrancy and attachment mid-stream (witnesses of `delivery_exact`)
    five = [[5, 1], [0, 2], [17, 3], [3, 4], [40, 5]]
    R = lambda kids: ["r", kids]          # noqa: E731
    C = lambda ex, kids: ["c", ex, "consumer", kids]   # noqa: E731
    scripts = [
        # two reads outstanding, each callback reads again (pipelined + re-entrant)
        [[-1, ["call", [R([R([])])]]], [-1, ["call", [R([R([])])]]]],
        # a callback that issues two reads: the second is served inside the first one's receive_record()
        [["end", ["call", [R([R([]), R([R([])])])]]]],
        [[-1, ["call", [R([R([]), R([])])]]], [-1, ["call", [R([])]]], [-1, ["call", [R([])]]]],
        # consumer attached with records already queued and with reads outstanding; re-attached from its own callback
        [["end", ["call", [C(6, [C(20, [R([])])])]]]],
        [[-1, ["call", [R([])]]], [0, ["call", [C(10, [R([]), C(None, [])])]]], ["end", ["call", [["d"], R([])]]]],
        # a read callback attaches a consumer which drains the queue; when done, the callback chain reads on
        [["end", ["call", [R([C(17, [R([R([])])])])]]]],
        # detach and re-attach by hand, detach with nothing attached (AttributeError), double attach (RuntimeError)
        [[-1, ["call", [C(None, [])]]], [1, ["call", [["d"], C(3, [])]]], ["end", ["call", [["d"]]]], ["end", ["call", [["d"]]]]],
        [[-1, ["call", [C(None, []), C(5, []), R([])]]]],
        # expected=0 from inside a callback, twice
        [["end", ["call", [R([C(0, [C(0, [R([])])])])]]]],
        # close() from inside a read callback with reads outstanding
        [[-1, ["call", [R([["x"], R([])])]]], [-1, ["call", [R([])]]], [-1, ["call", [R([])]]]],
    ]
    for app in scripts:
        for ch in ("all", "aligned", "one"):
            out.append(dict(kind="stream", dir="S", recs=five, chunk=ch, manip=None, app=app))
        out.append(dict(kind="stream", dir="R", recs=five, chunk="all", manip=["flip", 3, 30, 1], app=app))
    return out


def exhaustive_chunkings():
    """all ways to cut a 3-record stream at <= 3 of the positions within 2 bytes of a frame / field boundary"""
    recs = [[3, 1], [0, 2], [2, 3]]
    lens = [4 + 40 + s for s, _ in recs]
    bounds = set()
    off = 0
    for ln in lens:
        for b in (off, off + 4, off + 28, off + 44, off + ln):
            for d in (-2, -1, 0, 1, 2):
                bounds.add(b + d)
        off += ln
    pts = sorted(p for p in bounds if 0 < p < off)
    out = []
    import itertools
    for k in (1, 2, 3):
        for cuts in itertools.combinations(pts, k):
            if k == 3 and (cuts[0] * 7 + cuts[1] * 3 + cuts[2]) % 5 != 0:
                continue   # a fifth of the triples; all singles and pairs
            out.append(dict(kind="stream", dir="S", recs=recs, chunk=list(cuts), manip=None, app=[[-1, ["read", 3]]]))
    return out


def every_point():
    """every single-point manipulation of a 3-record stream"""
    recs = [[3, 1], [0, 2], [2, 3]]
    total = sum(4 + 40 + s for s, _ in recs)
    out = []
    for p in range(total):
        out.append(dict(kind="stream", dir="R", recs=recs, chunk="all", manip=["flipat", p, p % 8], app=[[-1, ["read", 3]]],
                        extra="00000000"))
        out.append(dict(kind="stream", dir="S", recs=recs, chunk="rand", mseed=p, manip=["trunc", p], app=[[-1, ["read", 3]]]))
        out.append(dict(kind="stream", dir="S", recs=recs, chunk="all", manip=["insbytes", p, "a5"],
                        app=[[-1, ["consume", 5, "file"]]]))
    return out


def hold_cases():
    """a transport that holds bytes while paused and releases them synchronously on resume: records queued, then the
    reading side pauses, more records pile up in the transport, then a consumer that resumes its producer from
    registerProducer() is attached (or the application resumes) - with and without tampering"""
    eight = [[2 + i % 2, 40 + i] for i in range(8)]
    total = sum(sz for sz, _ in eight)
    out = []
    patterns = [
        # queue 0..k, pause, hold the rest, attach a "ready" consumer for everything / without count / for a part
        [[1, ["call", [["p"]]]], ["end", ["attachready", total, []]]],
        [[2, ["call", [["p"]]]], ["end", ["attachready", None, [["r", []]]]]],
        [[0, ["call", [["p"]]]], [4, ["attachready", 7, [["r", [["r", []]]]]]], ["end", ["resume"]]],
        # a read outstanding, pause, hold, ready consumer (the held records go to the read first)
        [[-1, ["call", [["r", []]]]], [-1, ["call", [["p"]]]], [3, ["attachready", 5, []]], ["end", ["resume"]]],
        # the application itself resumes; pause again; resume again
        [[1, ["call", [["p"]]]], [3, ["resume"]], [4, ["call", [["p"]]]], ["end", ["resume"]], ["end", ["call", [["r", [["r", []]]]]]]],
        # a flow-controlled consumer pauses in write(); the rest is held until somebody resumes
        [[-1, ["call", [["c", None, "fc", []]]]], [2, ["resume"]], ["end", ["resume"]]],
        # attach "ready" twice (RuntimeError), expected = 0
        [[1, ["call", [["p"]]]], [2, ["attachready", None, []]], [3, ["attachready", 3, []]], ["end", ["resume"]]],
        [[1, ["call", [["p"]]]], ["end", ["attachready", 0, [["r", []]]]], ["end", ["resume"]]],
    ]
    for app in patterns:
        for m in (None, None, ["flip", 5, 30, 1], ["delete", 4], ["dup", 3], ["swap", 5], ["trunc", 200]):
            for ch in ("aligned", "every:61"):
                out.append(dict(kind="stream", dir="S" if len(out) % 2 else "R", recs=eight, chunk=ch, manip=m,
                                app=app + [["end", ["lost"]]], hold=True, loss=["done", "reset", "none"][len(out) % 3]))
    return out


def rand_hold_app(rng):
    """top-level pauses / resumes / "ready" consumers only (callbacks may pause, never resume): the holding transport
    re-enters dataReceived from resumeProducing(), which the model covers where the connection is otherwise idle"""
    acts = []
    pos = lambda: rng.choice([-1, 0, 1, 2, 3, 4, 5, "end"])  # noqa: E731
    if rng.random() < 0.4:
        acts.append([-1, ["call", [["r", [["p"]] if rng.random() < 0.5 else []] for _ in range(rng.randrange(1, 3))]]])
    for _ in range(rng.randrange(1, 4)):
        acts.append([pos(), ["call", [["p"]]]])
    for _ in range(rng.randrange(0, 3)):
        acts.append([pos(), ["resume"]])
    for _ in range(rng.randrange(1, 3)):
        kids = [chain(rng.randrange(0, 2))] if rng.random() < 0.5 else []
        acts.append([pos(), ["attachready", rng.choice([None, 0, 3, 8, 20, 100]), kids]])
    if rng.random() < 0.3:
        acts.append([pos(), ["call", [["c", rng.choice([None, 6]), "fc", []]]]])
    acts.append(["end", ["resume"]])
    if rng.random() < 0.5:
        acts.append(["end", ["call", [chain(2)]]])
    return acts


BACKLOG_COUNTS = [1, 2, 1023, 1024, 1025, 1500, 3000]


def backlog_cases():
    """a large backlog of tiny records received before the application reads or attaches a consumer at all, then
    plain reads (one more than there are records), pipelined re-entrant reads, or writeToFile for all the bytes"""
    out = []
    for n in BACKLOG_COUNTS:
        for d in ("S", "R"):
            recs = [[1 + (i * 7 + n) % 2, i] for i in range(n)]
            total = sum(sz for sz, _ in recs)
            reads = [["r", []] for _ in range(n + 1)]
            pipelined = [["r", [["r", []]]] for _ in range((n + 1) // 2)] + [["r", []]]
            for mode, app in (("reads", [["end", ["call", reads]]]),
                              ("pipelined", [["end", ["call", pipelined]]]),
                              ("file", [["end", ["call", [["c", total, "file", [["r", []]]]]]]])):
                out.append(dict(kind="stream", dir=d, recs=recs, chunk="every:997", manip=None,
                                app=app + [["end", ["lost"]]], loss=["done", "reset", "none"][n % 3], backlog=mode))
    return out


def every_cut():
    """the stream cut at every byte position (record boundary, inside a length prefix, nonce, MAC, ciphertext) and the
    loss reported as FIN / reset / without argument, with a consumer (and reads) outstanding"""
    recs = [[3, 1], [0, 2], [2, 3]]
    total = sum(4 + 40 + s for s, _ in recs)
    whys = ["done", "reset", "none"]
    out = []
    for p in range(total + 1):
        for v, why in enumerate(whys):
            k = (p + v) % 3
            if k == 0:      # writeToFile waiting for exactly the bytes of the three records
                app = [[-1, ["consume", 5, "file"]]]
            elif k == 1:    # a consumer whose count is never reached, attached behind an outstanding read
                app = [[-1, ["read", 0]], [0, ["call", [["c", 50, "consumer", [["r", []]]]]]]]
            else:           # reads outstanding, a consumer attached mid-stream
                app = [[-1, ["read", 1]], [-1, ["read", 0]], [1, ["call", [["c", 4, "file", []]]]]]
            out.append(dict(kind="stream", dir="S" if p % 2 else "R", recs=recs, chunk=rng_free_chunk(p), mseed=p,
                            manip=["trunc", p], app=app + [["end", ["lost", why]]], loss=why))
    return out


def rng_free_chunk(p):
    return ["all", "aligned", "rand", "one"][p % 4]


# ---------------------------------------------------------------------------
# consumer sessions: attach over a backlog, counts around the backlog, detach / re-attach, second attach

def _thr_case(sizes, app, cls, chunk="aligned", d="S", seed=0, **kw):
    c = dict(kind="stream", dir=d, recs=[[sz, seed + i] for i, sz in enumerate(sizes)], chunk=chunk, manip=None, app=app,
             cls=cls, mseed=seed)
    c.update(kw)
    return c


def threshold_corpus():
    """hand-picked consumer sessions (witnesses of `consumer_threshold_exact`): the count below / equal to / above the
    bytes of the backlog, reached in the middle of the backlog, by a later record, never; expected None / 0; detached
    and re-attached; a second attach; zero-length records with a small count"""
    out = []
    C = lambda ex, kids=(), mode="consumer": ["c", ex, mode, list(kids)]     # noqa: E731
    R = lambda kids=(): ["r", list(kids)]                                     # noqa: E731
    sizes = [3, 0, 1, 2, 2]      # partial sums 3 3 4 6 8
    for pos, nq in ((-1, 0), (1, 2), (2, 3), ("end", 5)):
        for ex in (None, 0, 1, 2, 3, 4, 5, 6, 7, 8, 9):
            mode = ["consumer", "file", "fc"][(nq + (ex or 0)) % 3]
            out.append(_thr_case(sizes, [[pos, ["call", [C(ex, [], mode)]]], ["end", ["call", [R([R()])]]]],
                                 f"backlog{nq}", d="S" if (ex or 0) % 2 else "R"))
    # the Deferred's callback reads / re-attaches; reached inside connectConsumer and later
    for pos in (1, "end"):
        for ex, ex2 in ((3, 1), (4, 2), (4, None), (6, 0), (2, 7)):
            out.append(_thr_case(sizes, [[pos, ["call", [C(ex, [C(ex2, [R()])])]]], ["end", ["call", [R()]]]], "reattach-from-callback"))
    # detach by hand, re-attach (count starts from zero), also in one and the same call
    for ex2 in (None, 1, 2, 3, 4, 5):
        out.append(_thr_case(sizes, [[-1, ["call", [C(None)]]], [1, ["call", [["d"]]]], [2, ["call", [C(ex2)]]],
                                     ["end", ["call", [R()]]]], "detach-reattach"))
        out.append(_thr_case(sizes, [[-1, ["call", [C(7, [R()])]]], [2, ["call", [["d"], C(ex2, [R()], "file")]]],
                                     ["end", ["call", [R()]]]], "detach-reattach", d="R"))
    # a second attach (RuntimeError), at top level and from a read callback; the first consumer goes on
    for ex in (None, 4, 8, 20):
        out.append(_thr_case(sizes, [[-1, ["call", [C(ex)]]], [0, ["call", [C(1), R()]]], ["end", ["call", [R()]]]], "second-attach"))
        out.append(_thr_case(sizes, [[-1, ["call", [R([C(ex), C(2, [R()]), R()])]]], ["end", ["call", [R()]]]], "second-attach", d="R"))
    # zero-length records and a small count
    for zs in ([0, 0, 1, 0], [0, 0, 0], [0, 1, 0, 1, 0], [1, 0, 0, 1]):
        for ex in (0, 1, 2):
            for pos in (-1, 1, "end"):
                out.append(_thr_case(zs, [[pos, ["call", [C(ex)]]], ["end", ["call", [R([R()])]]]], "zero-length"))
    # reads outstanding when the consumer is attached, reads served before
    out.append(_thr_case(sizes, [[-1, ["call", [R(), R()]]], [2, ["call", [C(3)]]], ["end", ["call", [R()]]]], "reads-before"))
    out.append(_thr_case(sizes, [[-1, ["call", [R()]]], ["end", ["call", [C(2, [R()]), R()]]]], "reads-before"))
    out.append(_thr_case(sizes, [[-1, ["call", [R([C(4, [R()])])]]], ["end", ["call", [R()]]]], "reads-before"))
    # the same with the stream in one chunk / byte by byte (attach positions are chunk indices)
    for ch in ("all", "one"):
        for ex in (None, 0, 3, 4, 8, 9):
            out.append(_thr_case(sizes, [["end", ["call", [C(ex, [R()])]]], ["end", ["call", [R()]]]], "backlog5", chunk=ch))
            out.append(_thr_case(sizes, [[-1, ["call", [C(ex, [R()])]]], ["end", ["call", [R()]]]], "backlog0", chunk=ch))
    return out


def gen_threshold_case(rng):
    """random consumer sessions; counts are drawn around the partial sums of what can still reach the consumer"""
    modes = ["consumer", "consumer", "file", "fc"]
    cls = rng.choice(["backlog", "backlog", "backlog", "detach-reattach", "second-attach", "none", "zero-length",
                      "reattach-from-callback", "reads-before"])
    n = rng.randrange(1, 9)
    pool = [0, 0, 1, 1, 2, 3, 5, 16, 17, 40] if cls != "zero-length" else [0, 0, 0, 1]
    sizes = [rng.choice(pool) for _ in range(n)]
    chunk = rng.choice(["aligned", "aligned", "aligned", "aligned", "all", "one", "rand"])
    if chunk == "aligned":
        positions = [-1] + list(range(n)) + ["end"]
    elif chunk == "all":
        positions = [-1, 0, "end"]
    else:
        positions = [-1, 0, 1, 3, 20, 44, 45, 46, 47, 60, 91, 92, 150, "end"]
    order = {p: i for i, p in enumerate(positions)}
    p1 = rng.choice(positions)
    later = [p for p in positions if order[p] >= order[p1]]

    def around(xs):
        sums, run = [], 0
        for x in xs:
            run += x
            sums.append(run)
        cands = [None, 0, 1, run, run + 1, max(run - 1, 0)]
        for t in sums:
            cands += [t, t + 1, max(t - 1, 0)]
        return rng.choice(cands)
    kids = lambda: rng.choice([[], [], [["r", []]], [chain(1)], [["r", []], ["r", []]]])   # noqa: E731
    app = []
    nreads = 0
    if cls == "reads-before":
        nreads = rng.randrange(1, 4)
        app.append([-1, ["call", [["r", kids() if rng.random() < 0.3 else []] for _ in range(nreads)]]])
    rest = sizes[nreads:] if nreads <= len(sizes) else []
    ex = around(rest)
    if cls == "none":
        ex = None
    mode = rng.choice(modes)
    if cls == "reattach-from-callback":
        app.append([p1, ["call", [["c", ex if ex is not None else around(rest[:2]), mode,
                                   [["c", around(rest[1:]), rng.choice(modes), kids()]] + kids()]]]])
    elif cls == "detach-reattach":
        p2 = rng.choice(later)
        p3 = rng.choice([p for p in positions if order[p] >= order[p2]])
        first = rng.choice([None, None, sum(sizes) + 1, around(rest)])
        app.append([p1, ["call", [["c", first, mode, kids()]]]])
        if p3 == p2 or rng.random() < 0.4:
            app.append([p2, ["call", [["d"], ["c", around(rest[1:]), rng.choice(modes), kids()]]]])
        else:
            app.append([p2, ["call", [["d"]]]])
            app.append([p3, ["call", [["c", around(rest[1:]), rng.choice(modes), kids()]]]])
    elif cls == "second-attach":
        app.append([p1, ["call", [["c", rng.choice([None, sum(sizes) + 5, around(rest)]), mode, kids()]]]])
        p2 = rng.choice(later)
        second = ["c", around(rest), rng.choice(modes), kids()]
        app.append([p2, ["call", rng.choice([[second], [second, ["r", []]], [["r", [second, ["r", []]]]]])]])
    else:
        app.append([p1, ["call", [["c", ex, mode, kids()]]]])
        if cls == "none" and rng.random() < 0.6:
            app.append([rng.choice(later), ["call", [["d"]] + kids()]])
    if rng.random() < 0.7:
        app.append(["end", ["call", [chain(rng.randrange(0, 3))]]])
    c = _thr_case(sizes, app, cls, chunk=chunk, d=rng.choice(["S", "R"]), seed=rng.randrange(1000))
    if rng.random() < 0.15:
        app.append([rng.choice(positions), ["lost"]])
        c["loss"] = rng.choice(["done", "reset", "none"])
    if rng.random() < 0.2:
        c["late_reads"] = rng.randrange(1, 3)
    return c


def threshold_exhaustive():
    """small scope, complete: every list of at most 3 records of 0..2 bytes, every attach position, every count from 0
    to one more than the bytes of the stream"""
    import itertools
    out = []
    for n in range(0, 4):
        for sizes in itertools.product((0, 1, 2), repeat=n):
            total = sum(sizes)
            for pos in [-1] + list(range(n)) + ["end"]:
                for ex in [None] + list(range(0, total + 2)):
                    out.append(_thr_case(list(sizes), [[pos, ["call", [["c", ex, "consumer", [["r", []]]]]]],
                                                        ["end", ["call", [["r", []]]]]], "exhaustive",
                                         d="S" if (n + total) % 2 else "R"))
    return out


# ---------------------------------------------------------------------------
# several connections in one process: corpus, generator, small-scope enumeration

def links_corpus():
    R1 = [["r", []]]
    out = []

    def case(cls, sched, **kw):
        c = dict(kind="links", cls=cls, sched=sched)
        c.update(kw)
        out.append(c)
    # twins: two sessions / two links doing the very same thing (same sizes at the same positions, other contents, other
    # keys), one after the other and side by side.  First of all cases: nothing any earlier case did is in the process
    for seq in (True, False):
        sched = [["open", 0]] + ([] if seq else [["open", 1]])
        for L in (0, 1):
            if seq and L:
                sched += [["lost", 0, "R", "done"], ["lost", 0, "S", "done"], ["open", 1]]
            sched += [["send", L, "S", 16, 100 + L], ["send", L, "S", 3, 200 + L], ["send", L, "R", 16, 300 + L],
                      ["deliver", L, "R", None], ["deliver", L, "S", 20], ["call", L, "R", R1]]
        sched += [["deliver", 0, "S", None], ["deliver", 1, "S", None], ["call", 1, "S", [["c", 16, "file", []]]], ["call", 0, "S", R1]]
        case("sequential" if seq else "concurrent", sched)
    # both ends of one link in this process: the ping is parked at the receiver (nobody reads there yet) while the sender
    # waits for the answer - its read must stay pending, then get the pong; the receiver then reads the ping
    case("echo", [["open", 0], ["send", 0, "S", 16, 1], ["deliver", 0, "R", None], ["call", 0, "S", R1],
                  ["send", 0, "R", 18, 2], ["deliver", 0, "S", 7], ["deliver", 0, "S", None], ["call", 0, "R", R1]])
    case("echo", [["open", 0], ["send", 0, "R", 5, 1], ["send", 0, "R", 0, 2], ["deliver", 0, "S", None], ["call", 0, "R", [chain(1)]],
                  ["send", 0, "S", 3, 3], ["deliver", 0, "R", None], ["call", 0, "S", [["c", 5, "file", R1]]]])
    # a session that ends with an unread record parked, then an unrelated one (fresh key, fresh objects) whose first act
    # is a read: it must wait for its own peer
    for end in ([["call", 0, "R", [["x"]]]], [["lost", 0, "R", "reset"], ["lost", 0, "S", "done"]], []):
        case("sequential", [["open", 0], ["send", 0, "S", 22, 1], ["send", 0, "S", 23, 2], ["deliver", 0, "R", None],
                            ["call", 0, "R", R1]] + end +
                           [["open", 1], ["call", 1, "R", R1], ["send", 1, "S", 21, 3], ["deliver", 1, "R", 7], ["deliver", 1, "R", None],
                            ["call", 1, "S", R1], ["send", 1, "R", 2, 4], ["deliver", 1, "S", None]])
    # the same with consumers: the earlier session's consumer got part of its bytes; the later one attaches over nothing
    case("sequential", [["open", 0], ["call", 0, "R", [["c", 100, "file", []]]], ["send", 0, "S", 40, 1], ["deliver", 0, "R", None],
                        ["call", 0, "R", [["d"]]], ["send", 0, "S", 17, 2], ["deliver", 0, "R", None], ["lost", 0, "R", "done"],
                        ["open", 1], ["call", 1, "R", [["c", 17, "file", R1]]], ["send", 1, "S", 16, 3], ["send", 1, "S", 1, 4],
                        ["send", 1, "S", 3, 5], ["deliver", 1, "R", None]])
    # two links at once: a record parked on one, a read pending on the other; then the other way round
    case("concurrent", [["open", 0], ["open", 1], ["send", 0, "S", 15, 1], ["deliver", 0, "R", None], ["call", 1, "R", R1],
                        ["send", 1, "S", 16, 2], ["deliver", 1, "R", 7], ["deliver", 1, "R", None], ["call", 0, "R", R1]])
    case("concurrent", [["open", 0], ["open", 1], ["call", 0, "R", R1], ["call", 0, "R", R1], ["send", 1, "S", 16, 2],
                        ["deliver", 1, "R", None], ["send", 0, "S", 15, 1], ["deliver", 0, "R", None], ["call", 1, "R", [chain(1)]]])
    # a consumer attached on one link while the other link's records arrive and are read
    case("concurrent", [["open", 0], ["open", 1], ["call", 0, "R", [["c", None, "consumer", []]]], ["send", 1, "S", 16, 2],
                        ["send", 1, "S", 3, 3], ["deliver", 1, "R", None], ["send", 0, "S", 15, 1], ["deliver", 0, "R", None],
                        ["call", 1, "R", R1], ["call", 0, "R", [["d"]]], ["send", 0, "S", 2, 4], ["deliver", 0, "R", None]])
    case("concurrent", [["open", 0], ["open", 1], ["send", 0, "S", 5, 1], ["send", 0, "S", 6, 2], ["deliver", 0, "R", None],
                        ["send", 1, "R", 7, 3], ["deliver", 1, "S", None], ["call", 1, "S", [["c", 7, "file", R1]]],
                        ["call", 0, "R", [["c", 5, "consumer", [["c", 6, "fc", []]]]]]])
    # three links, all six directions carry records, delivered a few bytes at a time in turn
    sched = [["open", 0], ["open", 1], ["open", 2]]
    for L in range(3):
        for role in ("S", "R"):
            sched += [["send", L, role, 2 + L, 10 * L + (role == "S")], ["send", L, role, 0, 0], ["send", L, role, 17, 50 + L]]
    sched += [["call", 1, "R", [chain(2)]], ["call", 2, "S", R1]]
    for turn in range(12):
        for L in range(3):
            for role in ("S", "R"):
                sched.append(["deliver", L, role, 13 + turn + L])
    for L in range(3):
        for role in ("S", "R"):
            sched.append(["deliver", L, role, None])
    case("concurrent", sched)
    # frames that belong elsewhere: another link's frame (another key), the other direction's, the connection's own,
    # an earlier one of its own stream - each as the very first frame and in the middle
    base = [["open", 0], ["open", 1]] + [["send", L, role, 4 + L, 7 * L + i] for L in (0, 1) for role in ("S", "R") for i in (0, 1, 2)]
    for m in (["cross", 0, "R", 0, 0], ["cross", 0, "R", 1, 1], ["cross", 0, "S", 0, 0], ["cross", 1, "S", 2, 2], ["own", 0, 0], ["own", 1, 2],
              ["replay", 0, 1], ["replay", 1, 3], ["flip", 1, 30, 2]):
        for app in ([["call", 1, "R", [chain(3)]]], [["call", 1, "R", [["c", 100, "file", []]]]], []):
            case("tamper", base + app + [["tamper", 1, "R", m], ["deliver", 0, "R", None], ["deliver", 1, "R", 50], ["deliver", 1, "R", None],
                                         ["deliver", 1, "S", None], ["deliver", 0, "S", None]])
    # one link's whole stream delivered to the other link's connection instead (misrouted): first frame refused
    case("tamper", [["open", 0], ["open", 1], ["send", 0, "S", 5, 1], ["send", 0, "S", 6, 2], ["send", 1, "S", 5, 3],
                    ["tamper", 1, "R", ["cross", 0, "R", 0, 0]], ["tamper", 1, "R", ["cross", 0, "R", 1, 1]],
                    ["call", 1, "R", [chain(2)]], ["deliver", 1, "R", None], ["deliver", 0, "R", None], ["call", 0, "R", [chain(2)]]])
    return out


def gen_links_case(rng):
    cls = rng.choice(["concurrent", "concurrent", "concurrent", "sequential", "sequential", "echo", "tamper", "tamper"])
    nl = 1 if cls == "echo" else rng.choice([2, 2, 3])
    seed = [rng.randrange(10**6)]

    def sz():
        return rng.choice(SMALL) if rng.random() < 0.8 else rng.choice([0, 1, 2, 3, rng.randrange(0, 300)])

    def send(L, role=None):
        seed[0] += 1
        return ["send", L, role or rng.choice(["S", "R"]), sz(), seed[0]]

    def deliver(L, role=None):
        return ["deliver", L, role or rng.choice(["S", "R"]), rng.choice([1, 3, 7, 23, 44, 45, 46, 100, 1000, None, None, None, None])]

    def call(L, role=None):
        r = rng.random()
        if r < 0.45:
            sc = [["r", []]]
        elif r < 0.6:
            sc = [chain(rng.randrange(1, 4))]
        elif r < 0.75:
            sc = [["c", rng.choice([None, 0, 1, 3, 16, 17, 40, 100]), rng.choice(["file", "consumer", "fc"]),
                   rng.choice([[], [["r", []]]])]]
        elif r < 0.82:
            sc = [["d"]]
        else:
            sc = rand_script(rng, budget=[rng.choice([1, 2, 3, 5])])
        return ["call", L, role or rng.choice(["S", "R"]), sc]

    def tamper(L, role=None):
        k = rng.choice(["cross", "cross", "cross", "own", "replay", "flip"])
        if k == "cross":
            m = ["cross", rng.randrange(nl), rng.choice(["S", "R"]), rng.randrange(8), rng.randrange(8)]
        elif k == "flip":
            m = ["flip", rng.randrange(8), rng.choice([rng.randrange(4), 4 + rng.randrange(24), 28 + rng.randrange(16), 44 + rng.randrange(40)]),
                 rng.randrange(8)]
        else:
            m = [k, rng.randrange(8), rng.randrange(8)]
        return ["tamper", L, role or rng.choice(["S", "R"]), m]

    sched = []
    if cls == "sequential":
        for L in range(nl):
            sched.append(["open", L])
            if L and rng.random() < 0.6:
                sched.append(["call", L, rng.choice(["S", "R"]), [["r", []]]])     # reads before its own peer has sent anything
            for _ in range(rng.randrange(2, 9)):
                sched.append(send(L))
            for _ in range(rng.randrange(1, 5)):
                sched.append(deliver(L))
            sched.append(deliver(L, "R"))
            sched.append(deliver(L, "S"))
            for _ in range(rng.randrange(0, 3)):       # fewer reads than records, as a rule: something stays parked
                sched.append(call(L))
            if L < nl - 1:
                end = rng.choice(["lost", "lost-one", "close", "nothing", "nothing"])
                if end == "lost":
                    sched += [["lost", L, "R", rng.choice(["done", "reset", "none"])], ["lost", L, "S", "done"]]
                elif end == "lost-one":
                    sched.append(["lost", L, rng.choice(["S", "R"]), rng.choice(["done", "reset", "none"])])
                elif end == "close":
                    sched.append(["call", L, rng.choice(["S", "R"]), [["x"]]])
        for _ in range(rng.randrange(0, 6)):           # the earlier sessions' objects are still around
            L = rng.randrange(nl)
            sched.append(rng.choice([call, deliver, send])(L))
    else:
        opened = [0]
        sched.append(["open", 0])
        if cls != "echo" and rng.random() < 0.6:
            for L in range(1, nl):
                sched.append(["open", L])
                opened.append(L)
        for _ in range(rng.randrange(12, 60)):
            if len(opened) < nl and rng.random() < 0.08:
                sched.append(["open", len(opened)])
                opened.append(len(opened))
                continue
            L = rng.choice(opened)
            r = rng.random()
            if r < 0.32:
                sched.append(send(L))
            elif r < 0.66:
                sched.append(deliver(L))
            elif r < 0.93:
                sched.append(call(L))
            elif r < 0.96:
                sched.append(["lost", L, rng.choice(["S", "R"]), rng.choice(["done", "reset", "none"])])
            elif cls == "tamper":
                sched.append(tamper(L))
        if cls == "tamper":
            pos = rng.randrange(len(sched) // 2, len(sched) + 1)
            sched.insert(pos, tamper(rng.choice(opened)))
        for L in range(nl):
            if L not in opened:
                sched.append(["open", L])
                sched.append(send(L))
        if rng.random() < 0.7:
            for L in range(nl):
                sched += [deliver(L, "R")[:3] + [None], deliver(L, "S")[:3] + [None]]
    if rng.random() < 0.04:
        big = rng.randrange(len(sched) + 1)
        sched.insert(big, ["send", 0, rng.choice(["S", "R"]), rng.choice(SIZES[4:]), 77])
    return dict(kind="links", cls=cls, sched=sched, loss=rng.choice(["done", "done", "reset", "none"]))


def links_exhaustive():
    """small scope, complete: two links, on each one record sent, delivered, and one read on the receiving end - every
    interleaving of the six steps (a record travels after it was sent); and the same with both ends of ONE link"""
    import itertools
    out = []
    for two_links in (True, False):
        a = (0, "S", "R")
        b = (1, "S", "R") if two_links else (0, "R", "S")
        steps = []
        for (L, snd, rcv), sd in ((a, 1), (b, 2)):
            steps.append([["send", L, snd, 3 + sd, sd], ["deliver", L, rcv, None], ["call", L, rcv, [["r", []]]]])
        for perm in set(itertools.permutations([0, 0, 0, 1, 1, 1])):
            for read_first in ((False, False), (True, False), (False, True), (True, True)):
                idx = [0, 0]
                sched = [["open", 0]] + ([["open", 1]] if two_links else [])
                order = []
                for w in perm:
                    order.append((w, idx[w]))
                    idx[w] += 1
                for w, i in order:
                    # read_first: the read comes before the send (pending when the record arrives) instead of last
                    seq = [2, 0, 1] if read_first[w] else [0, 1, 2]
                    sched.append(steps[w][seq[i]])
                out.append(dict(kind="links", cls="exhaustive", sched=sched))
    return out



def cases(rng, tier):
    # the multi-connection corpus comes first: whatever leaks from one Connection object to the next is then reported
    # with a case that shows it on its own (sessions side by side / one after the other inside ONE case)
    out = links_corpus() + corpus() + hold_cases() + backlog_cases() + threshold_corpus()
    n = 1 if tier == "quick" else 25
    for _ in range(150 * n):
        out.append(gen_links_case(rng))
    for _ in range(140 * n):
        out.append(gen_case(rng, adversarial=False))
    for _ in range(160 * n):
        out.append(gen_threshold_case(rng))
    for _ in range(260 * n):
        out.append(gen_case(rng, adversarial=True))
    if tier == "thorough":
        out += exhaustive_chunkings()
        out += every_point()
        out += every_cut()
        out += threshold_exhaustive()
        out += links_exhaustive()
    else:
        lx = links_exhaustive()
        out += [lx[i] for i in sorted(rng.sample(range(len(lx)), 40))]
        thr = threshold_exhaustive()
        out += [thr[i] for i in sorted(rng.sample(range(len(thr)), 80))]
        cuts = every_cut()
        fixed = {0, 2, 10, 30, 45, 47, 48, 91, 100, 137}    # record boundaries, length prefix, nonce, MAC, ciphertext, no cut
        out += [c for c in cuts if c["manip"][1] in fixed]
        rest = [c for c in cuts if c["manip"][1] not in fixed]
        out += [rest[i] for i in sorted(rng.sample(range(len(rest)), 45))]
        pts = every_point()
        out += [pts[i] for i in sorted(rng.sample(range(len(pts)), 60))]
        ex = exhaustive_chunkings()
        out += [ex[i] for i in sorted(rng.sample(range(len(ex)), 60))]
    return out


def search(rng, seconds, seeds):
    import time
    t0 = time.time()
    for c in seeds:
        yield c, run_case(c)
    for c in links_corpus() + links_exhaustive():
        yield c, run_case(c)
    for c in corpus() + threshold_corpus() + hold_cases() + backlog_cases() + every_cut() + every_point() + threshold_exhaustive():
        yield c, run_case(c)
        if time.time() - t0 > seconds:
            return
    while time.time() - t0 < seconds:
        r = rng.random()
        c = gen_links_case(rng) if r < 0.25 else gen_threshold_case(rng) if r < 0.5 else gen_case(rng, adversarial=rng.random() < 0.6)
        yield c, run_case(c)


def fresh_violations(case):
    """signatures of the oracle's violations when `case` is the only thing a new Python process ever runs"""
    import json
    import subprocess
    import sys
    root = os.path.dirname(os.path.dirname(os.path.dirname(os.path.abspath(__file__))))
    prog = ("import json, sys; from harness.props import c06; "
            "print('SIGS ' + json.dumps([s for s, _ in c06.run_case(json.loads(sys.stdin.read())).violations]))")
    r = subprocess.run([sys.executable, "-c", prog], input=json.dumps(case), capture_output=True, text=True, cwd=root, timeout=120)
    for line in r.stdout.splitlines():
        if line.startswith("SIGS "):
            return json.loads(line[5:])
    return []


def shrink(case):
    if case.get("kind") == "links":
        # a candidate counts only if it still fails in a process that has run nothing else: what one Connection object
        # leaves behind for the next may also have been left behind by an earlier CASE of this process, and a replay
        # has to show the failure on its own
        import time
        t0 = time.time()

        def ok(c):
            if time.time() - t0 > 9:
                return False
            try:
                return bool(run_case(c).violations) and bool(fresh_violations(c))
            except Exception:
                return False
        sched = case["sched"]
        for n in (16, 8, 4, 2, 1):
            for i in range(0, len(sched), n):
                if any(op[0] != "open" for op in sched[i:i + n]):
                    c = dict(case)
                    c["sched"] = sched[:i] + [op for op in sched[i:i + n] if op[0] == "open"] + sched[i + n:]
                    if ok(c):
                        yield c
        for i, op in enumerate(sched):
            if op[0] == "send" and op[3] > 3:
                c = dict(case)
                c["sched"] = sched[:i] + [op[:3] + [3, op[4]]] + sched[i + 1:]
                if ok(c):
                    yield c
            if op[0] == "deliver" and op[3] is not None:
                c = dict(case)
                c["sched"] = sched[:i] + [op[:3] + [None]] + sched[i + 1:]
                if ok(c):
                    yield c
        return
    recs = case["recs"]
    for i in range(len(recs)):
        c = dict(case)
        c["recs"] = recs[:i] + recs[i + 1:]
        yield c
    for i, (s, sd) in enumerate(recs):
        if s > 3:
            c = dict(case)
            c["recs"] = recs[:i] + [[3, sd]] + recs[i + 1:]
            yield c
    app = case.get("app", [])
    for i in range(len(app)):
        c = dict(case)
        c["app"] = app[:i] + app[i + 1:]
        yield c
    if case["chunk"] != "all":
        c = dict(case)
        c["chunk"] = "all"
        yield c
    for k in ("extra", "late_reads", "leftover"):
        if case.get(k):
            c = dict(case)
            c.pop(k)
            yield c
