"""C15 — Dilation back-pressure: correspondence + oracle on the real Outbound / Inbound.

Outbound world: the real `Outbound` (and real `PullToPush`, real `twisted CooperativeTask`) with
  * push producers whose `resumeProducing` performs the next *script* of re-entrant operations,
  * pull producers stepped by a fake Cooperator whose scheduling is chosen by the case,
  * a scripted connection: `send_record(r)` of a "pauser" record calls `Outbound.pauseProducing()`
    synchronously (the TCP buffer filled up), and the case calls pause/resume itself.
Inbound world: a real `Manager` (its real `Inbound`/`Outbound`), real `SubChannel` objects (pause/resume/stop
  through `SubChannel.pauseProducing()` & co, open through `Manager.subchannel_local_open`, close through
  `Manager.subchannel_closed`), real `DilatedConnectionProtocol` objects as connections, each on a recording TCP
  transport.  The oracle judges the TCP pause state, in both directions, against the subchannels that are NOT closed
  and have an outstanding pause request (Lean: `inbound_open_exact`); environment: the application of a closed
  subchannel does not pause again (such cases, tag `env:pause-after-close`, are correspondence-only).

Operation tokens (shared with the Lean driver):
  w0 w1 (queue_and_send_record, w1 = the transport answers with pauseProducing) | P R S (transport calls
  pause/resume/stopProducing) | r:<sc>:<p>:<1|0> (registerProducer push|pull) | u:<sc> | c:<sc> (subchannel_closed)
  | U D (use_connection / stop_using_connection) | pl:<p> (one Cooperator work unit of adapter p)
  | X (inside a turn: the producer writes to a real SubChannel that was closed locally, AlreadyClosedError
  leaves its resumeProducing(); for a pull producer that is PullToPush._pull's error path)
Inbound tokens: use | stop | p <sc> | r <sc> | s <sc> (SubChannel.pause/resume/stopProducing) | o <sc> / oh <sc>
  (subchannel_local_open + _set_protocol, plain / half-closeable protocol) | c <sc> (Manager.subchannel_closed directly)
  | rc <sc> (peer's CLOSE via Inbound.handle_close) | l <sc> (sc.loseConnection()) | lw <sc> (sc.loseWriteConnection())
  | ro <sc> (peer's OPEN for "proto" via Inbound.handle_open: parked until the application listens) | rd <sc> <KiB>
  (peer's DATA via Inbound.handle_data) | li <mode> (the application listens: Manager._register_subprotocol_factory;
  its protocols never pause / pause in connectionMade / pause at the first dataReceived)
"""
import itertools

from zope.interface import alsoProvides, implementer
from twisted.internet.interfaces import IPullProducer, IPushProducer, IHalfCloseableProtocol
from twisted.internet.task import CooperativeTask, Clock

from wormhole._dilation.outbound import Outbound, PullToPush
from wormhole._dilation.inbound import Inbound
from wormhole._dilation.connection import DilatedConnectionProtocol
from wormhole._dilation.manager import Manager
from wormhole._dilation.subchannel import SubChannel, SubchannelAddress, _WormholeAddress
from wormhole._dilation.roles import LEADER
from wormhole._interfaces import IDilationManager, IDilationConnector, ISend
from wormhole.eventual import EventualQueue

from ..core import Result
from ..util import automat_state

ID = "C15"
PROP_MODULES = ["WV.Props.C15"]
# translation validation of the Dilation method bodies (tools/extract.py::extract_pyir_dil -> WV/Gen/PyIRDil.lean,
# interpreter WV/Model/PyIR.lean): part of the check as soon as the module is installed (agents/deepPyIRdil_integration.md)
import os as _os
if _os.path.exists(_os.path.join(_os.path.dirname(_os.path.dirname(_os.path.dirname(_os.path.abspath(__file__)))),
                                 "lean", "WV", "Props", "PyIR_C15.lean")):
    PROP_MODULES.append("WV.Props.PyIR_C15")
# [deepDil2] second part of the Dilation data path (agents/deepDil2_integration.md)
if _os.path.exists(_os.path.join(_os.path.dirname(_os.path.dirname(_os.path.dirname(_os.path.abspath(__file__)))),
                                 "lean", "WV", "Props", "PyIRDil2_C15.lean")):
    PROP_MODULES.append("WV.Props.PyIRDil2_C15")
if _os.path.exists(_os.path.join(_os.path.dirname(_os.path.dirname(_os.path.dirname(_os.path.abspath(__file__)))),
                                 "lean", "WV", "Props", "PyIRDil2_C15b.lean")):
    PROP_MODULES.append("WV.Props.PyIRDil2_C15b")      # needs tools/extract.py::extract_pyir_dil2 (WV.Gen.PyIRDil2)
TRUSTED = [
    "producers are ids in the model; that Outbound.resumeProducing's loop ends on `p is None` and not on the truth value "
    "of a producer object is pinned from the source (resume_loop_ends_only_on_none) and the witness with a falsy "
    "IPushProducer is run on the real code as case kind `falsy`",
    "an application push producer's resumeProducing() does not raise; a pull producer's may (PullToPush._pull error path)",
    "application producers' pauseProducing()/stopProducing() do not call back into Outbound (only resumeProducing "
    "is re-entrant); a producer object is registered on at most one subchannel at a time; the Manager alternates "
    "use_connection/stop_using_connection (environment hypotheses of the theorems, checked dynamically by the harness)",
    "twisted Cooperator scheduling (replaced by a fake whose scheduling is chosen by the case; the real CooperativeTask "
    "pause-count logic is used; the model treats an adapter as runnable iff Outbound last resumed it)",
    "DilatedConnectionProtocol.pauseProducing/resumeProducing are read from the generated call skeleton; "
    "the TCP transport's own pauseProducing is Twisted's",
]
RULE = ("hand-picked re-entrancy corpus, random op sequences with random turn scripts (push+pull producers, reconnects, "
        "producer-object reuse, out-of-environment calls), small-scope exhaustive sequences (<=3 producers; <=3 ops quick, "
        "<=4 over a 17-symbol alphabet and <=6 over a 7-symbol alphabet thorough), Inbound (real Manager/SubChannel/"
        "DilatedConnectionProtocol) random + exhaustive: <=5/<=7 ops over 2 subchannels, and with subchannel open/close "
        "(3 open subchannels then <=4/<=5 ops over 10 symbols; open/close inside the sequence <=4/<=6 over 9 symbols); non-trivial = at least one producer/transport call observed; distinct = distinct canonical traces")


class Rec:
    __slots__ = ("seqnum", "pauser")

    def __init__(self, seqnum, pauser):
        self.seqnum = seqnum
        self.pauser = pauser


@implementer(IDilationManager)
class FakeManager:
    # what a SubChannel asks of its manager when the application closes it / writes to it
    def send_close(self, scid):
        pass

    def send_data(self, scid, data):
        pass

    def subchannel_closed(self, scid, sc):
        pass


class LoggedTask(CooperativeTask):
    """the real CooperativeTask; pause/resume/stop are reported before they run"""

    def __init__(self, iterator, cooperator, world, pid):
        self._w = world
        self._pid = pid
        CooperativeTask.__init__(self, iterator, cooperator)

    def pause(self):
        self._w.signal("p", self._pid)
        CooperativeTask.pause(self)

    def resume(self):
        self._w.signal("r", self._pid)
        CooperativeTask.resume(self)

    def stop(self):
        self._w.ev("x%d" % self._pid)
        CooperativeTask.stop(self)


class FakeCooperator:
    def __init__(self, world):
        self._w = world
        self._tasks = []

    def _addTask(self, t):
        self._tasks.append(t)

    def _removeTask(self, t):
        if t in self._tasks:     # (a task that finishes after it was stopped is removed twice)
            self._tasks.remove(t)

    def cooperate(self, iterator):
        pid = self._w.registering_pull
        t = LoggedTask(iterator, self, self._w, pid)
        self._w.tasks[pid] = t
        return t


@implementer(IPushProducer)
class PushProd:
    def __init__(self, world, pid):
        self.w = world
        self.pid = pid

    def pauseProducing(self):
        self.w.signal("p", self.pid)

    def resumeProducing(self):
        self.w.signal("r", self.pid)
        try:
            self.w.turn()
        except Exception:
            # an application push producer whose resumeProducing() raises: outside the environment
            self.w.env_ok = False
            self.w.tags.add("env:push-producer-raises")
            raise

    def stopProducing(self):
        self.w.ev("stop%d" % self.pid)


@implementer(IPullProducer)
class PullProd:
    def __init__(self, world, pid):
        self.w = world
        self.pid = pid

    def resumeProducing(self):
        self.w.ev("t%d" % self.pid)
        try:
            self.w.turn()
        except Exception:
            # a failed pull producer: PullToPush._pull must take its adapter out of Outbound's bookkeeping;
            # from here on the oracle no longer counts it as a registered producer
            self.w.pull_failed(self.pid)
            raise

    def stopProducing(self):
        self.w.ev("stop%d" % self.pid)


class FakeTCP:
    def __init__(self, world):
        self.w = world

    def registerProducer(self, p, streaming):
        self.w.ev("TR")

    def unregisterProducer(self):
        self.w.ev("TU")


class FakeConn:
    def __init__(self, world):
        self.w = world
        self.transport = FakeTCP(world)

    def send_record(self, r):
        self.w.ev("s1" if r.pauser else "s0")
        if r.pauser:
            self.w.t_paused = True
            self.w.o.pauseProducing()


EXPECTED_EXC = {"r": "ValueError", "u": "KeyError"}


class OutWorld:
    def __init__(self):
        self.events = []
        self.scripts = []
        self.viol = []
        self.tasks = {}
        self.registering_pull = None
        self.coop = FakeCooperator(self)
        self.o = Outbound(FakeManager(), self.coop)
        self.push = {}
        self.seq = 0
        # the oracle's own bookkeeping (never read from Outbound)
        self.env_ok = True
        self.t_paused = True            # the transport's last word is "pause", or there is no connection
        self.connected = False
        self.registered = {}            # producer id -> [status, epoch]
        self.sc_owner = {}              # sc -> producer id
        self.pending = None             # (pid, [status]) during a register call
        self.epoch = 0
        self.since = {}                 # pid -> set of (pid, epoch) that had a turn since pid's last turn
        self.tags = set()
        self.depth = 0
        self.pull_sc = {}               # pull producer id -> the subchannel it was registered on
        # a real SubChannel which the application has closed locally (state `closing`): writes to it raise
        self.dead_sc = SubChannel(99, FakeManager(), _WormholeAddress(), SubchannelAddress("proto"))
        self.dead_sc._set_protocol(FullProto())
        self.dead_sc.loseConnection()

    # ---- observation
    def ev(self, s):
        self.events.append(s)

    def bad(self, sig, msg):
        if self.env_ok:
            self.viol.append((sig, msg))

    def signal(self, kind, pid):
        self.ev("%s%d" % (kind, pid))
        if pid in self.registered:
            st = self.registered[pid]
        elif self.pending is not None and self.pending[0] == pid:
            st = self.pending[1]
        else:
            self.bad("signal-to-unregistered", f"{kind}{pid} sent to a producer that is not registered")
            return
        if kind == "p":
            if st[0] == "paused":
                self.bad("double-signal", f"producer {pid} told pauseProducing twice in a row")
            st[0] = "paused"
        else:
            if st[0] == "producing":
                self.bad("double-signal", f"producer {pid} told resumeProducing while producing")
            if self.t_paused:
                self.bad("resumed-while-paused", f"producer {pid} resumed although the transport is full / there is no connection")
            st[0] = "producing"
            # fair rotation: nobody gets a second turn while a registered producer is still waiting for its first
            me = (pid, st[1])
            for q, s in self.since.items():
                if q != pid and q in self.registered:
                    if me in s:
                        self.bad("unfair-rotation", f"producer {pid} got two turns while {q} (registered all along) got none")
                    s.add(me)
            self.since[pid] = set()

    def point(self, quiescent=False):
        """a re-entrant point (between two operations of a turn) or a quiescent point"""
        o = self.o
        try:
            o._check_invariants()
        except AssertionError:
            self.bad("sets-partition", "_check_invariants fails at a re-entrant point")
        allp = list(o._all_producers)
        if (len(set(map(id, allp))) != len(allp) or set(map(id, o._subchannel_producers.values())) != set(map(id, allp))
                or len(allp) != len(self.registered)):
            self.bad("sets-partition", "deque / dict / registrations disagree")
        if self.t_paused:
            up = [p for p, st in self.registered.items() if st[0] != "paused"]
            if up:
                self.bad("unpaused-while-paused", f"transport full or no connection, but producers {up} were last told to produce")
        if quiescent and not self.t_paused:
            ps = [p for p, st in self.registered.items() if st[0] != "producing"]
            if ps:
                self.bad("lost-wakeup", f"transport writable and idle, but producers {ps} are still paused")
        if quiescent:
            for pid, t in self.tasks.items():
                if pid in self.registered:
                    runnable = t in self.coop._tasks
                    if runnable != (self.registered[pid][0] == "producing"):
                        self.bad("pull-task-desync", f"pull adapter {pid}: runnable={runnable}, last told {self.registered[pid][0]}")

    # ---- operations
    def turn(self):
        script = self.scripts.pop(0) if self.scripts else []
        self.depth += 1
        if self.depth > 1:
            self.tags.add("nested-turn")
        try:
            for tok in script:
                self.point()
                if tok == "X":
                    # the producer writes to its subchannel, which the application has closed locally
                    # (real SubChannel in `closing`): AlreadyClosedError leaves its resumeProducing()
                    self.tags.add("turn-raises")
                    self.dead_sc.write(b"x")
                self.do(tok)
            self.point()
        finally:
            self.depth -= 1

    def pull_failed(self, pid):
        sc = self.pull_sc.get(pid)
        owner = self.sc_owner.get(sc)
        if owner is None:
            return
        if owner != pid:
            # the failing producer had already been replaced on its subchannel by another one, which the
            # adapter's unregister closure (it unregisters by subchannel) now removes: outside the environment
            self.env_ok = False
            self.tags.add("env:failed-producer-replaced")
        self.sc_owner.pop(sc)
        self.registered.pop(owner, None)
        self.since.pop(owner, None)
        self.tags.add("pull-producer-failed")

    def do(self, tok):
        f = tok.split(":")
        dup = f[0] == "r" and int(f[1]) in self.sc_owner
        exc = None
        n0 = len(self.events)
        was_connected = self.connected
        try:
            self.perform(tok)
        except Exception as e:  # the caller of an operation sees its exception and goes on
            exc = type(e).__name__
            self.ev("!" + exc)
        if f[0] == "D" and was_connected and "TU" not in self.events[n0:]:
            self.bad("transport-not-unregistered", "stop_using_connection left Outbound registered as the producer of the abandoned transport")
        if f[0] == "U" and not was_connected and "TR" not in self.events[n0:]:
            self.bad("transport-not-registered", "use_connection did not register Outbound as the producer of the new transport")
        self.after(tok, exc, dup)

    def perform(self, tok):
        o = self.o
        f = tok.split(":")
        k = f[0]
        if k in ("w0", "w1"):
            self.seq += 1
            o.queue_and_send_record(Rec(self.seq, k == "w1"))
        elif k == "P":
            self.t_paused = True
            o.pauseProducing()
        elif k == "S":
            self.t_paused = True
            o.stopProducing()
        elif k == "R":
            self.t_paused = False
            o.resumeProducing()
        elif k == "r":
            sc, pid, streaming = int(f[1]), int(f[2]), f[3] == "1"
            shared = pid in self.registered or (self.pending is not None and self.pending[0] == pid)
            if shared and sc not in self.sc_owner:
                # the same producer object on two subchannels: outside the environment (a registration on an
                # occupied subchannel is refused before anything changes, so that one stays inside)
                self.env_ok = False
                self.tags.add("env:shared-producer")
            self.epoch += 1
            prev = self.pending
            self.pending = (pid, ["producing", self.epoch], sc)
            try:
                if streaming:
                    p = self.push.setdefault(pid, PushProd(self, pid))
                    o.subchannel_registerProducer(sc, p, True)
                else:
                    self.registering_pull = pid
                    o.subchannel_registerProducer(sc, PullProd(self, pid), False)
                    self.pull_sc[pid] = sc
                self.registered[pid] = self.pending[1]
                self.sc_owner[sc] = pid
                self.since[pid] = set()
            finally:
                self.pending = prev
        elif k == "u":
            o.subchannel_unregisterProducer(int(f[1]))
        elif k == "c":
            o.subchannel_closed(int(f[1]), int(f[1]))
        elif k == "U":
            if self.connected:
                self.env_ok = False
                self.tags.add("env:use-twice")
            self.connected = True
            self.t_paused = False
            o.use_connection(FakeConn(self))
        elif k == "D":
            if not self.connected:
                self.env_ok = False
                self.tags.add("env:stop-unconnected")
            self.connected = False
            self.t_paused = True
            o.stop_using_connection()
        elif k == "X":
            self.dead_sc.write(b"x")
        elif k == "pl":
            t = self.tasks.get(int(f[1]))
            if t is not None and t in self.coop._tasks:
                t._oneWorkUnit()
        else:
            raise ValueError(tok)

    def after(self, tok, exc, dup):
        f = tok.split(":")
        k = f[0]
        if k == "X":
            return      # the top-level caller's own write failing is nobody's business
        if k in ("u", "c"):
            sc = int(f[1])
            if sc in self.sc_owner:
                pid = self.sc_owner.pop(sc)
                self.registered.pop(pid, None)
                self.since.pop(pid, None)
            elif k == "u":
                if exc == "KeyError":
                    self.tags.add("exc:unregister-nothing")
                else:
                    self.bad("internal-exception", f"{tok}: expected KeyError, got {exc}")
                return
        if k == "r" and dup:
            if exc == "ValueError":
                self.tags.add("exc:duplicate-register")
            else:
                self.bad("duplicate-register-accepted", f"{tok}: the subchannel already has a producer, got {exc}")
            return
        if exc is not None:
            self.bad("internal-exception", f"{tok} raised {exc}")


def canon_out(w):
    o = w.o

    def pid(p):
        if isinstance(p, PullToPush):
            return p._producer.pid
        return p.pid
    allp = [pid(p) for p in o._all_producers]
    P = sorted(pid(p) for p in o._paused_producers)
    U = sorted(pid(p) for p in o._unpaused_producers)
    pulls = sorted(pid(p) for p in o._subchannel_producers.values() if isinstance(p, PullToPush))
    j = lambda l: ",".join(str(x) for x in l)
    return (f"paused={1 if o._paused else 0} all={j(allp)} P={j(P)} U={j(U)} pulls={j(pulls)} "
            f"conn={1 if o._connection else 0} unsent={len(o._queued_unsent)} left={len(w.scripts)}")


def run_out(case):
    w = OutWorld()
    lines, exp = [], []
    for step in case["ops"]:
        tok, scripts = step["op"], step.get("scripts", [])
        lines.append("o " + tok + "".join(" / " + " ".join(s) for s in scripts))
        w.events = []
        w.scripts = [list(s) for s in scripts]
        w.do(tok)
        w.point(quiescent=True)
        exp.append((",".join(w.events) or "-") + " | " + canon_out(w))
        w.tags.add("op:" + tok.split(":")[0] + ("+script" if scripts else ""))
        if not w.env_ok and "!AssertionError" in w.events:
            # outside the environment AND the bookkeeping has just been found corrupted: what happens next is not
            # specified by anything (e.g. a PullToPush adapter that was never started); compared up to here only
            w.tags.add("env:stopped-after-assertion")
            break
    if not w.env_ok:
        w.tags.add("env:outside")
    # de-duplicate violations by signature (first message kept)
    seen, viol = set(), []
    for s, m in w.viol:
        if s not in seen:
            seen.add(s)
            viol.append((s, m))
    nontrivial = any(not e.startswith("- |") for e in exp)
    return Result(lines, exp, viol if w.env_ok else [], sorted(w.tags), nontrivial)


# ---------------------------------------------------------------------------
# Inbound

class RecTCP:
    def __init__(self, log, g):
        self.log = log
        self.g = g

    def pauseProducing(self):
        self.log.append("tp%d" % self.g)

    def resumeProducing(self):
        self.log.append("tr%d" % self.g)


@implementer(ISend)
class FakeSend:
    def send(self, phase, body):
        pass


class FullProto:
    """a plain IProtocol on a subchannel: records what it is told"""
    half = False

    def __init__(self):
        self.lost = False

    def makeConnection(self, t):
        pass

    def dataReceived(self, data):
        pass

    def connectionLost(self, why=None):
        self.lost = True

    def gone(self):
        return self.lost


@implementer(IHalfCloseableProtocol)
class HalfProto(FullProto):
    half = True

    def __init__(self):
        self.lost = False
        self.rlost = False
        self.wlost = False

    def readConnectionLost(self):
        self.rlost = True

    def writeConnectionLost(self):
        self.wlost = True

    def gone(self):
        return self.lost or (self.rlost and self.wlost)


# exceptions that are the caller's (application's / peer's) own fault, per operation
IN_EXPECTED = {
    "o": {"AssertionError"}, "oh": {"AssertionError"}, "c": {"KeyError"}, "rc": {"NoTransition"},
    "rd": {"NoTransition"}, "li": {"ValueError"},
    "l": {"NoTransition", "AlreadyClosedError", "NormalCloseUsedOnHalfCloseable"},
    "lw": {"NoTransition", "AlreadyClosedError", "HalfCloseUsedOnNonHalfCloseable"},
}


def run_in(case):
    """Real Manager (its real Inbound and Outbound), real SubChannel objects (one per scid) with a protocol
    attached, real DilatedConnectionProtocol connections on recording TCP transports.  pause/resume/stop go
    through SubChannel.pauseProducing() & co; `l`/`lw` are the application's loseConnection()/
    loseWriteConnection(); `rc` is the peer's CLOSE through Inbound.handle_close() → SubChannel.remote_close()
    → Manager.subchannel_closed(); `c` calls Manager.subchannel_closed() directly."""
    clock = Clock()
    eq = EventualQueue(clock)
    m = Manager(FakeSend(), "side", None, clock, eq, None, ["1"], 30.0, None)
    i = m._inbound

    class Conn:
        pass
    connector = Conn()
    alsoProvides(connector, IDilationConnector)
    log = []
    gen = 0
    cur = None
    tcp_paused = {}
    scs = {}
    protos = {}

    def sc_of(n):
        if n not in scs:
            scs[n] = SubChannel(n, m, _WormholeAddress(), SubchannelAddress("proto"))
        return scs[n]
    # the oracle's own bookkeeping (never read from Inbound or SubChannel)
    asked = set()        # subchannels with an outstanding pause request (a close ends the request)
    is_open = set()
    closed = set()       # closed (and not re-opened) subchannels
    stale = set()        # subchannels that were closed while they held a pause
    ever = set()
    direct = set()       # closed by the harness calling Manager.subchannel_closed behind the SubChannel machine's back
    state = dict(any_closed=False, env_ok=True)
    lines, exp, viol, tags = [], [], [], set()

    remote = set()       # subchannels created by the peer's OPEN (Inbound.handle_open)

    def app_pause(n, t):
        # an application protocol calls transport.pauseProducing() from inside connectionMade()/dataReceived()
        if n in closed:
            state["env_ok"] = False
            tags.add("env:pause-after-close")
        asked.add(n)
        tags.add("pause-in-callback:" + automat_state(t))
        t.pauseProducing()

    class AppProto(FullProto):
        """what the listening application's factory builds: mode 0 never pauses, 1 pauses its transport in
        connectionMade(), 2 at its first dataReceived()"""
        def __init__(self, mode):
            FullProto.__init__(self)
            self.mode = mode
            self.fired = False

        def makeConnection(self, t):
            self.transport = t
            protos[t._scid] = self
            if self.mode == 1:
                app_pause(t._scid, t)

        def dataReceived(self, data):
            if self.mode == 2 and not self.fired:
                self.fired = True
                app_pause(self.transport._scid, self.transport)

    class AppFactory:
        def __init__(self, mode):
            self.mode = mode

        def buildProtocol(self, addr):
            return AppProto(self.mode)

    def now_closed(n):
        if n in is_open:
            state["any_closed"] = True
            is_open.discard(n)
            closed.add(n)
            if n in asked:
                stale.add(n)
                asked.discard(n)

    for tok in case["ops"]:
        f = tok.split()
        k = f[0]
        n = int(f[1]) if len(f) > 1 else None
        n0 = len(log)
        exc = None
        was_open = n in is_open
        if k in ("o", "oh", "ro") and not was_open and (n in ever or (k == "ro" and n in scs)):
            # subchannel ids are never reused (and the peer's OPEN makes a new SubChannel object): compared up to here
            tags.add("env:scid-reuse")
            break
        if k == "c" and n in remote:
            tags.add("env:direct-close-of-remote-subchannel")
            break
        try:
            if k == "use":
                gen += 1
                p = DilatedConnectionProtocol(eq, LEADER, "desc", connector, object(), b"out", b"in")
                p.transport = RecTCP(log, gen)
                tcp_paused[gen] = False
                cur = gen
                i.use_connection(p)
            elif k == "stop":
                cur = None
                i.stop_using_connection()
            elif k == "p":
                if n in closed:
                    # the application of a closed subchannel pausing again: outside the environment (correspondence only)
                    state["env_ok"] = False
                    tags.add("env:pause-after-close")
                asked.add(n)
                tags.add("pause-in:" + automat_state(sc_of(n)))
                sc_of(n).pauseProducing()
            elif k == "r":
                asked.discard(n)
                stale.discard(n)
                tags.add("resume-in:" + automat_state(sc_of(n)))
                sc_of(n).resumeProducing()
            elif k == "s":
                asked.discard(n)
                stale.discard(n)
                tags.add("stop-in:" + automat_state(sc_of(n)))
                sc_of(n).stopProducing()
            elif k in ("o", "oh"):
                m.subchannel_local_open(n, sc_of(n))
                ever.add(n)
                is_open.add(n)          # (Inbound has it from here on, whatever _set_protocol says)
                closed.discard(n)
                if n not in protos:
                    protos[n] = HalfProto() if k == "oh" else FullProto()
                    sc_of(n)._set_protocol(protos[n])
                else:
                    sc_of(n)._set_protocol(HalfProto() if k == "oh" else FullProto())   # AssertionError: already has one
            elif k == "ro":
                if was_open:
                    i.handle_open(n, "proto")           # duplicate OPEN: logged and ignored
                else:
                    i.handle_open(n, "proto")
                    scs[n] = i._open_subchannels[n]     # the SubChannel object Inbound created
                    remote.add(n)
                    ever.add(n)
                    is_open.add(n)
                    closed.discard(n)
                    tags.add("remote-open:" + ("listening" if n in protos else "parked"))
            elif k == "rd":
                if was_open:
                    tags.add("remote-data:" + automat_state(sc_of(n)))
                i.handle_data(n, bytes(int(f[2]) * 1024))
            elif k == "li":
                parked_now = len(m._subprotocol_factories._pending_opens.get("proto", ()))
                tags.add("listen:mode%s/%d-parked" % (f[1], min(parked_now, 3)))
                m._register_subprotocol_factory("proto", AppFactory(int(f[1])))
            elif k == "c":
                if was_open:
                    tags.add("close:%s/%d-open-paused/%s" % ("paused" if n in asked else "unpaused", min(len(asked & is_open), 3),
                                                            "conn%d" % min(gen, 2) if cur else "noconn"))
                    now_closed(n)
                    direct.add(n)
                m.subchannel_closed(n, sc_of(n))
            elif k == "rc":
                i.handle_close(n)
            elif k == "l":
                sc_of(n).loseConnection()
            elif k == "lw":
                sc_of(n).loseWriteConnection()
        except Exception as e:
            exc = type(e).__name__
            if exc in IN_EXPECTED.get(k, ()) and not (k == "c" and was_open):
                tags.add("exc:%s:%s" % (k, exc))
            elif exc == "KeyError" and k in ("l", "lw", "rc") and n in direct:
                # the machine completes a close that the harness' direct `c` had already performed
                tags.add("exc:second-close-after-direct-c")
            else:
                viol.append(("inbound-pause-not-forwarded" if "Producing" in str(e) else "inbound-internal-exception",
                             f"{tok}: {exc}: {e}"))
        for x in sorted(is_open):
            if x in protos and protos[x].gone():
                # the application has been told that the subchannel is gone
                tags.add("closed-by:%s/%s" % (k, "paused" if x in asked else "unpaused"))
                now_closed(x)
        for e in log[n0:]:
            g = int(e[2:])
            want = e[1] == "p"
            if tcp_paused[g] == want:
                viol.append(("inbound-double-signal", f"TCP transport of connection {g} told {e} twice in a row"))
            tcp_paused[g] = want
            tags.add("tcp:" + e[:2])
        # the property: paused exactly while a not-closed subchannel has an outstanding pause request
        want = asked
        if cur is not None and state["env_ok"]:
            if want and not tcp_paused[cur]:
                if state["any_closed"]:
                    viol.append(("inbound-open-subchannel-pause-lost",
                                 f"after {tok}: inbound reads are running although open subchannel(s) {sorted(want)} asked for a pause "
                                 f"and never resumed (closed so far: {sorted(closed)})"))
                else:
                    viol.append(("inbound-pause-not-forwarded" if exc else "inbound-pause-inexact",
                                 f"after {tok}: subchannels asking for a pause = {sorted(want)}, TCP transport of the current connection paused = False"))
            elif not want and tcp_paused[cur]:
                if stale:
                    viol.append(("inbound-closed-subchannel-holds-pause",
                                 f"after {tok}: nobody who is still open asks for a pause, but subchannel(s) {sorted(stale)}, closed while "
                                 f"paused, keep the connection paused: no subchannel receives data any more"))
                else:
                    viol.append(("inbound-pause-inexact",
                                 f"after {tok}: nobody asks for a pause (every pause was resumed, stopped or ended by a close), "
                                 f"TCP transport of the current connection paused = True"))
        lines.append("i " + tok)
        evs = log[n0:] + (["!" + exc] if exc else [])
        sub = ",".join("%d:%s" % (x, automat_state(scs[x])) for x in sorted(scs) if automat_state(scs[x]) != "unconnected")
        exp.append((",".join(evs) or "-") + " | "
                   + "paused=" + ",".join(str(x) for x in sorted(sc._scid for sc in i._paused_subchannels))
                   + " open=" + ",".join(str(x) for x in sorted(i._open_subchannels))
                   + " conn=" + (str(cur) if i._connection is not None else "-")
                   + " sub=" + sub
                   + " parked=" + ",".join(str(t._scid) for t, _a in m._subprotocol_factories._pending_opens.get("proto", ()))
                   + " pend=" + ",".join("%d:%d%s" % (x, len(getattr(scs[x], "_pending_remote_data", ())),
                                                      "c" if getattr(scs[x], "_pending_remote_close", False) else "")
                                         for x in sorted(scs)
                                         if getattr(scs[x], "_pending_remote_data", ()) or getattr(scs[x], "_pending_remote_close", False)))
        tags.add("iop:" + k)
    seen, v2 = set(), []
    for s, msg in viol:
        if s not in seen:
            seen.add(s)
            v2.append((s, msg))
    if not state["env_ok"]:
        v2 = [x for x in v2 if x[0] in ("inbound-internal-exception", "inbound-double-signal")]
    return Result(lines, exp, v2, sorted(tags), nontrivial=bool(log))


# A registered IPushProducer whose truth value is False (it defines __len__/__bool__, e.g. a buffer-like producer
# that is empty right now): before fix 129b6a1 `Outbound.resumeProducing` did `p = self._get_next_unpaused_producer();
# if not p: break`, so the loop ended when that producer came up: it never got its turn and everybody behind it waited
# for another drain.  The Lean model identifies producers with ids; this case kind runs the witness on the real code
# (violation `falsy-producer-never-resumed`).
STRICT_FALSY_PRODUCER = True


def run_falsy(case):
    @implementer(IPushProducer)
    class P:
        def __init__(self, name, falsy):
            self.name, self.falsy, self.calls = name, falsy, []

        def __len__(self):
            return 0 if self.falsy else 1

        def pauseProducing(self):
            self.calls.append("pause")

        def resumeProducing(self):
            self.calls.append("resume")

        def stopProducing(self):
            pass

    class C:
        class transport:
            @staticmethod
            def registerProducer(p, s):
                pass

            @staticmethod
            def unregisterProducer():
                pass

        @staticmethod
        def send_record(r):
            pass
    o = Outbound(FakeManager(), None)
    prods = [P("p%d" % n, n in case["falsy"]) for n in range(case["n"])]
    for n, pr in enumerate(prods):
        o.subchannel_registerProducer(n, pr, True)
    o.use_connection(C)
    for _ in range(case.get("cycles", 0)):
        o.pauseProducing()
        o.resumeProducing()
    stuck = [pr.name for pr in prods if pr.calls[-1:] != ["resume"]]
    tags, viol = ["falsy-producer"], []
    if stuck:
        tags.append("obs:falsy-producer-never-resumed")
        if STRICT_FALSY_PRODUCER:
            viol.append(("falsy-producer-never-resumed",
                         f"transport writable and idle after {case.get('cycles', 0)} further pause/drain cycles, but producers {stuck} "
                         f"were never resumed (falsy producers: {['p%d' % n for n in case['falsy']]})"))
    return Result([], [], viol, tags, nontrivial=False)


def run_coop(case):
    """Real Outbound + real PullToPush + the real twisted Cooperator scheduled by a real EventualQueue on a Clock
    (`Cooperator(scheduler=eq.eventually)`, as wormhole.create() builds it).  Oracle only (the Lean model leaves the
    Cooperator's scheduling to the case): once the connection is up and drained, a registered pull producer that was
    last told to produce gets its resumeProducing() called within a few eventual turns — its wake-up is not lost."""
    from twisted.internet.task import Cooperator
    clock = Clock()
    eq = EventualQueue(clock)
    coop = Cooperator(terminationPredicateFactory=lambda: (lambda: True), scheduler=eq.eventually)
    o = Outbound(FakeManager(), coop)
    calls = [0]

    @implementer(IPullProducer)
    class Pull:
        def resumeProducing(self):
            calls[0] += 1

        def stopProducing(self):
            pass

    class C:
        class transport:
            @staticmethod
            def registerProducer(p, s):
                pass

            @staticmethod
            def unregisterProducer():
                pass

        @staticmethod
        def send_record(r):
            pass
    connected = registered = False
    tags, viol = ["coop"], []

    def turn():
        # one reactor turn: run the timed calls that are pending now (not the ones they schedule)
        for dc in list(clock.calls):
            if dc in clock.calls and dc.active():
                clock.calls.remove(dc)
                dc.called = 1
                dc.func(*dc.args, **dc.kw)
    for tok in case["ops"]:
        if tok == "g" and not registered:
            o.subchannel_registerProducer(1, Pull(), False)
            registered = True
        elif tok == "U" and not connected:
            o.use_connection(C)
            connected = True
        elif tok == "D" and connected:
            o.stop_using_connection()
            connected = False
        elif tok == "P":
            o.pauseProducing()
        elif tok == "R" and connected:
            o.resumeProducing()
        elif tok == "t":
            turn()
    if registered:
        if not connected:
            o.use_connection(C)
        o.resumeProducing()
        before = calls[0]
        for _ in range(4):
            turn()
        tags.append("coop:final-wakeup")
        if calls[0] == before:
            viol.append(("pull-wakeup-lost", "connection up and drained, Outbound told the pull producer's adapter to resume, but its "
                         "resumeProducing() is not called in 4 eventual turns"))
    return Result([], [], viol, tags, nontrivial=False)


def run_case(case):
    if case["kind"] == "out":
        return run_out(case)
    if case["kind"] == "coop":
        return run_coop(case)
    if case["kind"] == "falsy":
        return run_falsy(case)
    return run_in(case)


# ---------------------------------------------------------------------------
# generators

def O(tok, *scripts):
    return dict(op=tok, scripts=[list(s) for s in scripts])


CORPUS = [
    # a pull producer writes to its locally closed subchannel (AlreadyClosedError out of its resumeProducing):
    # _pull unregisters the adapter; the next back-pressure event pauses everybody else, the next drain resumes them
    [O("U"), O("r:1:10:0"), O("r:2:2:1"), O("r:3:3:1"), O("pl:10", ["X"]), O("P"), O("R"), O("w1"), O("R", ["w0"], ["w0"]), O("pl:10")],
    [O("r:1:10:0"), O("r:2:2:1"), O("U"), O("pl:10", ["w0", "X", "w1"]), O("D"), O("U", ["w0"]), O("pl:10")],
    [O("U"), O("r:1:10:0"), O("r:2:11:0"), O("pl:10", ["P", "X"]), O("R"), O("pl:11", ["w1"]), O("pl:11", ["X"]), O("R"), O("r:1:12:0"), O("pl:12")],
    [O("U"), O("r:1:10:0"), O("pl:10", ["u:1", "X"]), O("pl:10", ["X"]), O("X")],
    # OUTSIDE the environment: a push producer's resumeProducing raises; a failed pull producer already replaced
    [O("r:1:1:1"), O("r:2:2:1"), O("U", ["X"]), O("P"), O("R")],
    [O("U"), O("r:1:10:0"), O("pl:10", ["u:1", "r:1:2:1", "X"]), O("P"), O("R")],
    # pause arrives inside a producer's turn (its write filled the TCP buffer)
    [O("r:1:1:1"), O("r:2:2:1"), O("r:3:3:1"), O("U", ["w1"]), O("R", ["w1"]), O("R", ["w1"]), O("R", ["w0"], ["w0"], ["w0"])],
    # pause-then-resume inside a turn; nested loops
    [O("r:1:1:1"), O("r:2:2:1"), O("U", ["P", "R"], ["w1"], ["R"])],
    [O("r:1:1:1"), O("r:2:2:1"), O("r:3:3:1"), O("U", ["w1", "R"], ["w1", "R"], ["w1", "R"], ["w0"], ["w0"])],
    # a producer unregisters itself / another / closes / registers a new one inside its turn
    [O("r:1:1:1"), O("r:2:2:1"), O("U", ["u:1"], ["w0"])],
    [O("r:1:1:1"), O("r:2:2:1"), O("U", ["u:2"])],
    [O("r:1:1:1"), O("r:2:2:1"), O("U", ["c:2", "r:3:3:1", "w1"]), O("R")],
    [O("r:1:1:1"), O("U", ["u:1", "r:1:1:1"]), O("P"), O("R")],
    [O("r:1:1:1"), O("U", ["P", "r:2:2:1", "R"], ["w0"])],
    [O("r:1:1:1"), O("U", ["P", "u:1", "r:1:1:1", "R"], ["w0"])],
    # queued records are re-sent first on a new connection, and may pause
    [O("w0"), O("w1"), O("w0"), O("r:1:1:1"), O("U"), O("R"), O("R", ["w0"]), O("D"), O("U"), O("R"), O("R")],
    # reconnect: everybody paused while there is no connection, nobody resumed until the new one drains
    [O("U"), O("r:1:1:1"), O("r:2:2:1"), O("D"), O("r:3:3:1"), O("U", ["w0"], ["w0"], ["w0"]), O("S"), O("R")],
    # pull producers
    [O("U"), O("r:1:10:0"), O("pl:10", ["w0"]), O("pl:10", ["w1"]), O("pl:10"), O("R"), O("pl:10", ["u:1"]), O("pl:10")],
    [O("r:1:10:0"), O("r:2:2:1"), O("pl:10"), O("U", ["w0"]), O("pl:10", ["w1"]), O("R", ["w0"]), O("c:1"), O("pl:10")],
    [O("U"), O("r:1:10:0"), O("r:2:11:0"), O("pl:10", ["w1"]), O("R"), O("pl:11", ["P", "R"]), O("D"), O("pl:10"), O("U")],
    # confused transport: double pause / double resume
    [O("r:1:1:1"), O("U"), O("R"), O("P"), O("P"), O("R"), O("R")],
    # caller errors that must leave everything intact
    [O("r:1:1:1"), O("r:1:2:1"), O("u:7"), O("c:7"), O("U", ["r:1:3:1", "u:9"])],
    # OUTSIDE the environment (kept for the correspondence only): one producer object on two subchannels
    [O("r:1:1:1"), O("r:2:1:1"), O("u:1"), O("U"), O("u:2")],
    [O("U"), O("r:1:1:1"), O("r:2:1:1"), O("P"), O("u:1"), O("R"), O("U"), O("D"), O("D")],
]


def rand_script(rng, depth=0, fail=0.0):
    n = rng.choice([0, 1, 1, 1, 2, 2, 3])
    out = []
    for _ in range(n):
        r = rng.random()
        if rng.random() < fail:
            out.append("X")
            continue
        if r < 0.30:
            out.append(rng.choice(["w0", "w1", "w1"]))
        elif r < 0.45:
            out.append("P")
        elif r < 0.60:
            out.append("R")
        elif r < 0.72:
            out.append("u:%d" % rng.randrange(1, 5))
        elif r < 0.80:
            out.append("c:%d" % rng.randrange(1, 5))
        elif r < 0.97:
            out.append("r:%d:%d:%d" % (rng.randrange(1, 5), rng.choice([-1, -1, 1, 2, 3]), 1 if rng.random() < 0.8 else 0))
        else:
            out.append("S")
    return out


def rand_out_case(rng, adversarial=False):
    ops = []
    fresh = [20]
    connected = False

    def fix(tok):
        # r:<sc>:-1:<s> → a fresh producer object; pull producers are always fresh adapters
        f = tok.split(":")
        if f[0] == "r" and (f[2] == "-1" or f[3] == "0"):
            fresh[0] += 1
            f[2] = str(fresh[0])
        return ":".join(f)
    n = rng.randrange(3, 10)
    for _ in range(n):
        r = rng.random()
        if r < 0.25:
            tok = "r:%d:%d:%d" % (rng.randrange(1, 5), rng.choice([-1, -1, -1, 1, 2, 3]), 1 if rng.random() < 0.75 else 0)
        elif r < 0.33:
            tok = "u:%d" % rng.randrange(1, 5)
        elif r < 0.38:
            tok = "c:%d" % rng.randrange(1, 5)
        elif r < 0.52:
            tok = "D" if connected else "U"
            if adversarial and rng.random() < 0.3:
                tok = rng.choice(["U", "D"])
            connected = tok == "U"
        elif r < 0.70:
            tok = "R"
        elif r < 0.78:
            tok = rng.choice(["P", "S"])
        elif r < 0.88:
            tok = rng.choice(["w0", "w1"])
        else:
            tok = "pl:%d" % rng.randrange(21, max(22, fresh[0] + 1))
        nscripts = rng.choice([0, 0, 1, 2, 3, 4]) if tok[0] in "RUp" else 0
        scripts = [[fix(t) for t in rand_script(rng)] for _ in range(nscripts)]
        if tok.startswith("pl:") and nscripts:
            # the pull producer's own turn is the first script: it may fail (its subchannel was closed locally)
            scripts[0] = [fix(t) for t in rand_script(rng, fail=0.35)]
        elif adversarial and nscripts and rng.random() < 0.2:
            scripts[-1] = scripts[-1] + ["X"]
        ops.append(dict(op=fix(tok), scripts=scripts))
    return dict(kind="out", ops=ops)


def rand_pullfail_case(rng):
    """pull (and push) producers registered on a live connection; pull producers get Cooperator turns in which
    they may hit their locally closed subchannel; back-pressure and drain events in between"""
    ops = [O("U")] if rng.random() < 0.8 else []
    pulls, nxt = [], 30
    for sc in range(1, rng.randrange(3, 6)):
        nxt += 1
        if rng.random() < 0.55 or not pulls:
            ops.append(O("r:%d:%d:0" % (sc, nxt)))
            pulls.append(nxt)
        else:
            ops.append(O("r:%d:%d:1" % (sc, nxt)))
        rng.shuffle(ops[1:]) if False else None
    if not ops or ops[0]["op"] != "U":
        ops.append(O("U"))
    for _ in range(rng.randrange(3, 10)):
        r = rng.random()
        if r < 0.4:
            script = rand_script(rng, fail=0.4)
            script = [t for t in script if not t.startswith("r:")]
            ops.append(O("pl:%d" % rng.choice(pulls), script))
        elif r < 0.55:
            ops.append(O(rng.choice(["P", "w1", "S"])))
        elif r < 0.8:
            ops.append(O("R", *[[t for t in rand_script(rng) if not t.startswith("r:")] for _ in range(rng.randrange(0, 3))]))
        elif r < 0.9:
            ops.extend([O("D"), O("U")])
        else:
            ops.append(O("u:%d" % rng.randrange(1, 5)))
    return dict(kind="out", ops=ops)


SETUP3 = [O("r:1:1:1"), O("r:2:2:1"), O("r:3:3:1")]
ALPHA_SMALL = [O("U"), O("D"), O("R"), O("R", ["w1"]), O("R", ["P", "R"]), O("u:1"), O("P")]
ALPHA_BIG = ALPHA_SMALL + [
    O("R", ["w1"], ["w1"]), O("R", ["w1", "R"], ["w1"]), O("R", ["u:1"]), O("R", ["u:2"], ["c:3"]),
    O("R", ["P", "r:4:4:1", "R"]), O("U", ["w1"]), O("U", ["P", "R"], ["u:2"]), O("r:1:1:1"), O("r:4:5:0"), O("pl:5", ["w1"]),
    O("pl:5", ["X"]),
]


def exhaustive_out(alpha, depth, setup):
    for d in range(1, depth + 1):
        for seq in itertools.product(alpha, repeat=d):
            yield dict(kind="out", ops=setup + list(seq))


IN_ALPHA = ["use", "stop", "p 1", "p 2", "r 1", "r 2", "s 1"]
# with subchannel open/close: three subchannels, opened by the prefix or by the sequence itself
IN_OPEN3 = ["o 1", "o 2", "o 3"]
IN_ALPHA_C = ["use", "stop", "p 1", "p 2", "p 3", "r 1", "s 2", "c 1", "c 2", "c 3"]
IN_ALPHA_OC = ["use", "stop", "p 1", "p 2", "r 2", "o 1", "o 2", "c 1", "c 2"]

IN_OPEN2 = ["o 1", "o 2"]
IN_ALPHA_L = ["use", "stop", "p 1", "p 2", "r 1", "r 2", "s 1", "l 1", "rc 1", "rc 2"]
IN_OPENH = ["oh 1", "o 2"]
IN_ALPHA_H = ["use", "p 1", "r 1", "p 2", "r 2", "lw 1", "rc 1", "l 2", "rc 2"]

IN_ALPHA_B = ["use", "stop", "ro 1", "ro 2", "rd 1 600", "rd 2 1", "li 0", "li 1", "li 2", "r 1", "rc 1"]

IN_CORPUS = [
    # the peer OPENs and streams a backlog (> 1 MiB) before the application listens; the listener's protocol is a slow
    # consumer that pauses during the hand-over (at its first dataReceived / in connectionMade): paused then, and after
    ["use", "ro 1", "rd 1 600", "rd 1 600", "rd 1 600", "li 2", "rd 1 1", "r 1", "rd 1 600", "stop", "use"],
    ["use", "ro 1", "ro 2", "rd 1 600", "rd 1 600", "rd 2 600", "rc 2", "li 1", "r 1", "r 2", "ro 3", "rd 3 1"],
    ["ro 1", "rd 1 600", "rd 1 600", "use", "li 0", "rd 1 600", "p 1", "stop", "use", "rc 1"],
    ["use", "li 2", "ro 1", "rd 1 1", "rd 1 1", "r 1", "ro 1", "li 0", "rc 1", "rd 1 1"],
    # pause -> local loseConnection() (closing, still open until the peer's CLOSE) -> resume: the resume counts
    ["use", "o 1", "o 2", "p 1", "l 1", "r 1", "rc 1", "stop", "use"],
    ["o 1", "p 1", "l 1", "r 1", "use", "rc 1"],
    ["use", "o 1", "o 2", "p 1", "p 2", "l 1", "r 1", "r 2", "p 1", "s 1", "rc 1"],
    # closing while paused, then the peer's CLOSE: released at close time; the other one keeps its pause
    ["use", "o 1", "o 2", "p 1", "p 2", "l 1", "rc 1", "stop", "use", "r 2"],
    # half-close: pause -> loseWriteConnection() -> resume; and closed from write_closed / read_closed while paused
    ["use", "oh 1", "p 1", "lw 1", "r 1", "p 1", "rc 1"],
    ["use", "oh 1", "o 2", "p 1", "rc 1", "r 1", "p 1", "lw 1", "p 2", "rc 2"],
    # misuse: wrong kind of close, double close, double CLOSE from the peer
    ["use", "oh 1", "o 2", "l 1", "lw 2", "l 2", "l 2", "lw 1", "lw 1", "rc 1", "rc 1", "rc 2", "rc 2", "l 3"],
    # the only paused subchannel is closed: the connection must be resumed, or subchannel 2 never gets data (fixed by
    # bec439a; its revert is caught here with signature inbound-closed-subchannel-holds-pause), also on the next connection
    ["use", "o 1", "p 1", "c 1", "o 2"],
    ["use", "o 1", "p 1", "c 1", "o 2", "stop", "use", "p 2", "r 2"],
    ["o 1", "p 1", "c 1", "use", "o 2"],
    ["p 1", "use", "p 2", "r 1", "r 2", "p 1", "stop", "use", "s 1", "r 1", "p 1", "p 1", "stop", "r 1", "use"],
    # two applications paused, one of them closed: the other one keeps the pause, also on the next connection
    ["use", "o 1", "o 2", "p 1", "p 2", "c 1", "p 2", "stop", "use", "r 2"],
    ["o 1", "o 2", "o 3", "p 1", "p 2", "p 3", "use", "c 2", "c 3", "stop", "use", "r 1"],
    ["use", "o 1", "o 2", "o 3", "p 1", "p 2", "p 3", "stop", "use", "c 1", "c 2", "r 3"],
    # closing an unpaused subchannel, closing twice, re-opening
    ["use", "o 1", "o 2", "p 2", "c 1", "c 1", "o 1", "o 1", "r 2", "c 2"],
]


def rand_in_case(rng):
    ops = []
    alpha = ["use", "stop"] + ["%s %d" % (k, n) for k in ("p", "r", "s", "o", "oh", "c", "rc", "l", "lw") for n in (1, 2, 3)]
    if rng.random() < 0.4:
        # the peer opens subchannels itself, possibly before the application listens
        alpha = (["use", "stop", "li 0", "li 1", "li 2"] + ["ro %d" % n for n in (1, 2, 3)] * 2
                 + ["rd %d %d" % (n, kb) for n in (1, 2, 3) for kb in (1, 600, 600)]
                 + ["%s %d" % (k, n) for k in ("p", "r", "s", "rc", "l") for n in (1, 2, 3)])
        return dict(kind="in", ops=["use"] * (rng.random() < 0.6) + [rng.choice(alpha) for _ in range(rng.randrange(2, 16))])
    if rng.random() < 0.7:
        ops += ["%s %d" % (rng.choice(["o", "o", "oh"]), n) for n in range(1, rng.randrange(2, 5))]
    for _ in range(rng.randrange(1, 14)):
        r = rng.random()
        if r < 0.35:
            ops.append("p %d" % rng.randrange(1, 4))
        elif r < 0.42:
            ops.append("%s %d" % (rng.choice(["c", "rc", "rc"]), rng.randrange(1, 4)))
        elif r < 0.55:
            ops.append("%s %d" % (rng.choice(["l", "l", "lw"]), rng.randrange(1, 4)))
        elif r < 0.68:
            ops.append("r %d" % rng.randrange(1, 4))
        else:
            ops.append(rng.choice(alpha))
    return dict(kind="in", ops=ops)


def exhaustive_in(alpha, depth, prefix=(), first=None):
    for d in range(1, depth + 1):
        for seq in itertools.product(alpha, repeat=d):
            if first is not None and d == depth and seq[0] not in first:
                continue
            yield dict(kind="in", ops=list(prefix) + list(seq))


def cases(rng, tier):
    out = [dict(kind="out", ops=c) for c in CORPUS]
    out.extend(dict(kind="in", ops=c) for c in IN_CORPUS)
    for d in range(1, 7 if tier == "thorough" else 5):
        for seq in itertools.product(["g", "U", "D", "P", "R", "t"], repeat=d):
            if "g" in seq:
                out.append(dict(kind="coop", ops=list(seq)))
    out.append(dict(kind="falsy", n=2, falsy=[0], cycles=0))
    out.append(dict(kind="falsy", n=3, falsy=[1], cycles=2))
    out.append(dict(kind="falsy", n=2, falsy=[], cycles=1))
    thorough = tier == "thorough"
    n = 6000 if thorough else 300
    for k in range(n):
        out.append(rand_out_case(rng, adversarial=(k % 5 == 4)))
    for k in range(n // 2):
        out.append(rand_pullfail_case(rng))
    for k in range(4000 if thorough else 300):
        out.append(rand_in_case(rng))
    if thorough:
        out.extend(exhaustive_out(ALPHA_BIG, 4, SETUP3))
        out.extend(exhaustive_out(ALPHA_SMALL, 6, SETUP3[:2]))
        out.extend(exhaustive_in(IN_ALPHA, 7, first=("use", "p 1")))
        out.extend(exhaustive_in(IN_ALPHA_C, 5, prefix=IN_OPEN3))
        out.extend(exhaustive_in(IN_ALPHA_OC, 6, first=("use", "o 1", "p 1")))
        out.extend(exhaustive_in(IN_ALPHA_L, 5, prefix=IN_OPEN2))
        out.extend(exhaustive_in(IN_ALPHA_H, 5, prefix=IN_OPENH))
        out.extend(exhaustive_in(IN_ALPHA_B, 5, first=("use", "ro 1")))
    else:
        out.extend(exhaustive_out(ALPHA_BIG, 2, SETUP3))
        out.extend(exhaustive_out(ALPHA_SMALL, 3, SETUP3[:2]))
        out.extend(exhaustive_in(IN_ALPHA, 5))
        out.extend(exhaustive_in(IN_ALPHA_C, 4, prefix=IN_OPEN3))
        out.extend(exhaustive_in(IN_ALPHA_OC, 4))
        out.extend(exhaustive_in(IN_ALPHA_L, 4, prefix=IN_OPEN2))
        out.extend(exhaustive_in(IN_ALPHA_H, 4, prefix=IN_OPENH))
        out.extend(exhaustive_in(IN_ALPHA_B, 4))
    return out


def search(rng, seconds, seeds):
    import time
    t0 = time.time()
    for c in seeds:
        yield c, run_case(c)
    for c in exhaustive_out(ALPHA_BIG, 3, SETUP3):
        yield c, run_case(c)
        if time.time() - t0 > seconds:
            return
    while time.time() - t0 < seconds:
        c = rand_out_case(rng)
        yield c, run_case(c)
        c = rand_pullfail_case(rng)
        yield c, run_case(c)
        c = rand_in_case(rng)
        yield c, run_case(c)


def shrink(case):
    if case["kind"] == "falsy":
        return
    if case["kind"] == "coop":
        for i in range(len(case["ops"])):
            yield dict(kind="coop", ops=case["ops"][:i] + case["ops"][i + 1:])
        return
    ops = case["ops"]
    for i in range(len(ops)):
        c = dict(case)
        c["ops"] = ops[:i] + ops[i + 1:]
        yield c
    if case["kind"] == "out":
        for i, st in enumerate(ops):
            sc = st.get("scripts", [])
            for j in range(len(sc)):
                for k in range(len(sc[j])):
                    c = dict(case)
                    s2 = [list(x) for x in sc]
                    del s2[j][k]
                    c["ops"] = ops[:i] + [dict(op=st["op"], scripts=s2)] + ops[i + 1:]
                    yield c
            if sc and not sc[-1]:
                c = dict(case)
                c["ops"] = ops[:i] + [dict(op=st["op"], scripts=[list(x) for x in sc[:-1]])] + ops[i + 1:]
                yield c
