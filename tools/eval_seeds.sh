#!/bin/bash
# usage: tools/eval_seeds.sh <seed_out_dir> <results.jsonl> [parallel] [extra seedrun args]
# Evaluates every seed directory (scratch mode unless --inplace is passed through) with its own property's check
# plus the cross-checks listed below.
src=$1; out=$2; par=${3:-6}; shift 3
cd "$(dirname "$0")/.."
cross() {
  case $1 in
    C01_c) echo C01,C14,C09,C02;;
    C10_a) echo C10,C12;;
    C10_b) echo C10,C13;;
    C04_a) echo C04,C06;;
    *) echo "";;
  esac
}
export -f cross
ls "$src" | while read s; do
  [ -f "$src/$s/patch.diff" ] || continue
  c=$(cross $s)
  if [ -n "$c" ]; then echo "$src/$s --checks $c"; else echo "$src/$s"; fi
done | xargs -P "$par" -L 1 sh -c 'python3 tools/seedrun.py "$@" 2>&1 | grep "^{" ' _ "$@" >> "$out"
