#!/venv/bin/python
"""tools/coverage.py — which parts of /repo/src/wormhole are inside the Lean model, and how each is tied to it.

Walks every function / method under src/wormhole (tests and the versioneer file excluded) with `ast` and classifies it
by the STRONGEST tie the framework has for it on the current tree (after ./check --setup regenerated lean/WV/Gen):

  A  translated + agreement theorem : the body is translated to PyIR on every run (WV.Gen.PyIR*) and at least one
                                       theorem in lean/WV/Props names the generated definition (exec of the generated
                                       body = the hand-written model semantics: state, ordered calls, exception)
  T  translated + pinned             : translated on every run, change visible to `all_translated`-style pins only
  K  automat table                   : an @m.input / @m.state of a generated transition table (WV.Gen.T_*)
  S  call skeleton                   : ordered outgoing calls extracted by ast (WV.Gen.Skel / ApiSkel) and pinned
  G  generated per-property module   : the function is read by a per-property translator section
                                       (WV.Gen.Recv, HintGuards, C06, Transit, C02, C13Wire, Words, Consts, Catches, Asserts)
  -  correspondence only / not modelled

Writes COVERAGE.md (committed; a map for readers) and prints a summary.  This is documentation of the trusted base, not
a check: nothing depends on it.
"""
import ast
import json
import os
import re
import sys

ROOT = os.path.dirname(os.path.dirname(os.path.abspath(__file__)))
SRC = os.environ.get("WV_SRC", "/repo/src/wormhole")
GEN = os.path.join(ROOT, "lean", "WV", "Gen")
PROPS = os.path.join(ROOT, "lean", "WV", "Props")


def read(p):
    try:
        return open(p, encoding="utf-8").read()
    except OSError:
        return ""


def main():
    gen_pyir = {}
    for f in sorted(os.listdir(GEN)):
        if f.startswith("PyIR") and f.endswith(".lean"):
            for m in re.finditer(r"^def (m_[A-Za-z0-9_]+)", read(os.path.join(GEN, f)), re.M):
                gen_pyir[m.group(1)] = f
    props_text = "".join(read(os.path.join(PROPS, f)) for f in sorted(os.listdir(PROPS)) if f.endswith(".lean"))
    proofs_dir = os.path.join(ROOT, "lean", "WV", "Proofs")
    proofs_text = "".join(read(os.path.join(proofs_dir, f)) for f in sorted(os.listdir(proofs_dir)) if f.endswith(".lean"))
    used = {d for d in gen_pyir if re.search(r"\b" + re.escape(d) + r"\b", props_text)}
    used_in_proofs = {d for d in gen_pyir if re.search(r"\b" + re.escape(d) + r"\b", proofs_text)}
    skel_text = read(os.path.join(GEN, "Skel.lean")) + read(os.path.join(GEN, "ApiSkel.lean"))
    skel = set(re.findall(r'\| "([A-Za-z0-9_.]+)" =>', skel_text))
    other_gen = {f: read(os.path.join(GEN, f)) for f in os.listdir(GEN)
                 if f.endswith(".lean") and not f.startswith(("PyIR", "Skel", "ApiSkel", "T_", "Tables", "Failed", "Shared"))}
    extract_text = read(os.path.join(ROOT, "tools", "extract.py"))

    rows = []
    for dp, dn, fn in os.walk(SRC):
        dn[:] = [d for d in dn if d not in ("test", "__pycache__")]
        for f in sorted(fn):
            if not f.endswith(".py") or f == "_version.py":
                continue
            path = os.path.join(dp, f)
            rel = os.path.relpath(path, SRC)
            try:
                tree = ast.parse(read(path))
            except SyntaxError:
                continue

            def visit(node, cls):
                for ch in node.body:
                    if isinstance(ch, ast.ClassDef):
                        visit(ch, ch.name)
                    elif isinstance(ch, (ast.FunctionDef, ast.AsyncFunctionDef)):
                        decos = [ast.unparse(d) for d in ch.decorator_list]
                        qn = f"{cls}.{ch.name}" if cls else ch.name
                        n = (ch.end_lineno or ch.lineno) - ch.lineno + 1
                        d = f"m_{cls}_{ch.name}" if cls else f"m_{ch.name}"
                        d2 = f"m_{cls.lstrip('_')}_{ch.name}" if cls else d
                        cand = [x for x in (d, d2) if x in gen_pyir]
                        if any(x in used for x in cand):
                            k = "A"
                        elif cand:
                            k = "T"
                        elif any(x.startswith("m.input") or x.startswith("m.state") for x in decos):
                            k = "K"
                        elif qn in skel or (cls and f"{cls.lstrip('_')}.{ch.name}" in skel):
                            k = "S"
                        elif any(re.search(r"\b" + re.escape(ch.name) + r"\b", t) for t in other_gen.values()) \
                                and re.search(r"[\"']" + re.escape(ch.name) + r"[\"']", extract_text):
                            k = "G"
                        else:
                            k = "-"
                        rows.append((rel, qn, n, k))
            visit(tree, None)

    kinds = "ATKSG-"
    per_file = {}
    for rel, qn, n, k in rows:
        pf = per_file.setdefault(rel, {c: [0, 0] for c in kinds})
        pf[k][0] += 1
        pf[k][1] += n
    tot = {c: [sum(pf[c][0] for pf in per_file.values()), sum(pf[c][1] for pf in per_file.values())] for c in kinds}
    out = ["# Coverage map: how each function of src/wormhole is tied to the Lean model",
           "",
           "Generated by `tools/coverage.py` from the current /repo working tree and the regenerated `lean/WV/Gen`.",
           "Classes (strongest tie wins): **A** body translated on every run + agreement theorem in `lean/WV/Props`;",
           "**T** body translated on every run, pinned only; **K** row of a generated Automat table; **S** call skeleton",
           "extracted and pinned; **G** read by a per-property translator section; **-** tied by the differential",
           "correspondence runs only, or outside every model (CLI plumbing, Tor, ssh, status objects, timing).",
           "Counts are functions (source lines).",
           "",
           "| file | A | T | K | S | G | - |", "|---|---|---|---|---|---|---|"]
    for rel in sorted(per_file):
        pf = per_file[rel]
        out.append(f"| {rel} | " + " | ".join(f"{pf[c][0]} ({pf[c][1]})" if pf[c][0] else "" for c in kinds) + " |")
    out.append("| **total** | " + " | ".join(f"**{tot[c][0]} ({tot[c][1]})**" for c in kinds) + " |")
    out += ["", "## Functions without a translator tie (class `-`), by file", ""]
    for rel in sorted(per_file):
        names = [f"`{qn}` ({n})" for r, qn, n, k in rows if r == rel and k == "-"]
        if names:
            out.append(f"* **{rel}**: " + ", ".join(names))
    out += ["", "## Translated but without an agreement theorem (class `T`)", ""]
    for rel in sorted(per_file):
        names = [f"`{qn}`" + (" (used in Proofs)" if any(x in used_in_proofs for x in (f"m_{qn.replace('.', '_')}",)) else "")
                 for r, qn, n, k in rows if r == rel and k == "T"]
        if names:
            out.append(f"* **{rel}**: " + ", ".join(names))
    text = "\n".join(out) + "\n"
    dest = os.path.join(ROOT, "COVERAGE.md")
    if read(dest) != text:
        open(dest, "w", encoding="utf-8").write(text)
    print(json.dumps({c: tot[c] for c in kinds}))
    return 0


if __name__ == "__main__":
    sys.exit(main())
