#!/usr/bin/env python3
"""register a property model in lean/Driver.lean and lean/WV.lean:  tools/register.py C05 [extra imports…]"""
import sys, os, re
ROOT = os.path.dirname(os.path.dirname(os.path.abspath(__file__)))
pid = sys.argv[1]
extra = sys.argv[2:]
d = os.path.join(ROOT, "lean", "Driver.lean")
s = open(d).read()
imp = f"import WV.Model.{pid}\n"
if imp not in s:
    s = s.replace("\n/-! Line-protocol", imp + "\n/-! Line-protocol", 1)
row = f'  | "{pid}" => WV.{pid}.driver lines\n'
if row not in s:
    s = s.replace('  | _ => ["unknown-model "', row + '  | _ => ["unknown-model "', 1)
open(d, "w").write(s)
w = os.path.join(ROOT, "lean", "WV.lean")
s = open(w).read()
for m in extra + [f"WV.Model.{pid}", f"WV.Props.{pid}"]:
    line = f"import {m}\n"
    if line not in s:
        s += line
open(w, "w").write(s)
print("registered", pid)
