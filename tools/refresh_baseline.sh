#!/bin/bash
# after any change of tools/extract.py (or a fix: commit in /repo): the committed fallback text of the generated
# modules (used only for sections the translator cannot regenerate, see extract.py main()) is the translation of the
# pinned tree
cd "$(dirname "$0")/.." && /venv/bin/python tools/extract.py > /dev/null && cp lean/WV/Gen/*.lean tools/gen_baseline/ && echo refreshed
