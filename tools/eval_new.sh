#!/bin/bash
# usage: tools/eval_new.sh <seed_out_dir> <results.jsonl> [parallel] [id-regex]
# evaluates (scratch mode) every completely delivered seed directory that has no line in <results.jsonl> yet
src=$1; out=$2; par=${3:-4}; pat=${4:-.}
cd "$(dirname "$0")/.."
touch "$out"
for d in "$src"/*/; do
  s=$(basename "$d")
  [ -f "$d/patch.diff" ] && [ -f "$d/meta.json" ] && [ -f "$d/demo.py" ] || continue
  echo "$s" | grep -Eq "$pat" || continue
  grep -q "\"id\": \"$s\"" "$out" && continue
  echo "$src/$s"
done | xargs -r -P "$par" -L 1 sh -c 'python3 tools/seedrun.py "$@" 2>&1 | grep "^{" ' _ >> "$out"
