#!/bin/bash
# usage: tools/integrate_all.sh <dest-worktree> <tag>...   — dest = checkout of the base commit; merges branches int_<tag>
set -e
dest=$1; shift
cd /verif
base=$(git -C $dest rev-parse HEAD)
files=$(for t in "$@"; do git diff --name-only $(git merge-base $base int_$t) int_$t; done | sort | uniq -c | awk '{print $1":"$2}')
for cf in $files; do
  n=${cf%%:*}; f=${cf#*:}
  case $f in agents/*) continue;; esac
  vs=""
  for t in "$@"; do
    if git diff --name-only $(git merge-base $base int_$t) int_$t | grep -qx "$f"; then
      mkdir -p /tmp/int_variants/$t/$(dirname $f); git show int_$t:$f > /tmp/int_variants/$t/$f; vs="$vs /tmp/int_variants/$t/$f"
    fi
  done
  mkdir -p $dest/$(dirname $f)
  if git cat-file -e $base:$f 2>/dev/null; then
    git show $base:$f > /tmp/int_variants/base_file
    python3 tools/merge_additive.py /tmp/int_variants/base_file $dest/$f $vs || echo "CONFLICT in $f"
    [ "$n" -gt 1 ] && echo "merged $f from $n variants"
  else
    if [ "$n" -gt 1 ]; then echo "NEW FILE $f in $n variants (taking the last)"; fi
    cp $(echo $vs | awk '{print $NF}') $dest/$f
  fi
done
