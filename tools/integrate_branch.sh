#!/bin/bash
# usage: tools/integrate_branch.sh <TAG> <base-commit>
# builds branch int_<TAG> = <base> + agents/<TAG>_shared.diff + agents/<TAG>_files/* (for a later union merge)
set -e
tag=$1; base=$2
cd "$(dirname "$0")/.."
wt=/tmp/int_$tag
rm -rf $wt; git worktree prune
git branch -D int_$tag 2>/dev/null || true
git worktree add -q -b int_$tag $wt $base
cd $wt
patch -p1 --no-backup-if-mismatch < /verif/agents/${tag}_shared.diff
if [ -d /verif/agents/${tag}_files ]; then cp -r /verif/agents/${tag}_files/* .; fi
git add -A
git commit -qm "integrate $tag (agent branch)"
cd /verif
git worktree remove --force $wt
echo "branch int_$tag ready"
