#!/usr/bin/env python3
"""Builds /verif/seeded/<id>/ from the sub-agents' deliveries (/tmp/seed_out/<id>/) and the evaluation
results (JSON lines written by tools/seedrun.py).  meta.json gets: which property it breaks, what it needs
to manifest, what was run, and which checks catch it.

  tools/collect_seeds.py /tmp/seed_out /tmp/seed_results.jsonl [/tmp/seed_results_inplace.jsonl]
"""
import json
import os
import shutil
import sys

ROOT = os.path.dirname(os.path.dirname(os.path.abspath(__file__)))


def main():
    src = sys.argv[1]
    results = {}
    inplace = {}
    files = []
    for a in sys.argv[2:]:
        if a.startswith("--inplace="):
            # results of `tools/seedrun.py <dir> --inplace` (git -C /repo apply; ./check in /verif; git -C /repo checkout -- .)
            for l in open(a.split("=", 1)[1]):
                try:
                    r = json.loads(l)
                except Exception:
                    continue
                inplace[r["id"]] = {c: dict(rc=v.get("rc"), violation_line=v.get("violation")) for c, v in (r.get("checks") or {}).items()}
                if not r.get("applies", True):
                    inplace[r["id"]] = "patch does not apply to /repo HEAD"
        else:
            files.append(a)
    for f in files:
        if not os.path.exists(f):
            continue
        for l in open(f):
            try:
                r = json.loads(l)
            except Exception:
                continue
            cur = results.setdefault(r["id"], dict(checks={}))
            for k in ("applies", "suite_ok", "suite_tail", "demo_fails_with", "demo_passes_without", "demo_tail"):
                if k in r:
                    cur[k] = r[k]
            for c, v in (r.get("checks") or {}).items():
                cur["checks"][c] = v          # later files / lines win (re-runs after strengthening)
    out = os.path.join(ROOT, "seeded")
    os.makedirs(out, exist_ok=True)
    index = []
    for sid in sorted(os.listdir(src)):
        d = os.path.join(src, sid)
        if not os.path.isfile(os.path.join(d, "patch.diff")) or not os.path.isfile(os.path.join(d, "meta.json")) \
                or sid not in results:
            continue          # not delivered completely yet / not evaluated yet
        meta = json.load(open(os.path.join(d, "meta.json")))
        r = results.get(sid, {})
        confirmed = bool(r.get("applies") and r.get("suite_ok") and r.get("demo_fails_with") and r.get("demo_passes_without"))
        caught = {c: v for c, v in r.get("checks", {}).items() if v.get("rc") == 1}
        dst = os.path.join(out, sid)
        os.makedirs(dst, exist_ok=True)
        shutil.copy(os.path.join(d, "patch.diff"), dst)
        if os.path.exists(os.path.join(d, "demo.py")):
            shutil.copy(os.path.join(d, "demo.py"), dst)
        m = dict(id=sid, breaks_property=meta.get("property"), summary=meta.get("summary"),
                 needs_to_manifest=meta.get("needs"), files_touched=meta.get("files_touched"),
                 author_verification=meta.get("how_verified"),
                 confirmed=dict(patch_applies=r.get("applies"), existing_suite_passes_with_patch=r.get("suite_ok"),
                                suite_tail=r.get("suite_tail"), demo_fails_with_patch=r.get("demo_fails_with"),
                                demo_passes_without_patch=r.get("demo_passes_without"), all=confirmed),
                 what_was_run=["tools/seedrun.py <dir>: the patch applied to a scratch copy of /repo (PYTHONPATH points at it); the existing "
                               "test-suite with the patch; demo.py with and without the patch; `./check <property> --tier quick` from a "
                               "private copy of /verif against that scratch tree"] +
                              (["tools/seedrun.py <dir> --inplace: `git -C /repo apply patch.diff`, `./check <property> --tier quick` in /verif "
                                "itself, `git -C /repo checkout -- .` straight afterwards"] if sid in inplace else []),
                 checks_inplace=inplace.get(sid),
                 checks={c: dict(rc=v.get("rc"), violation_line=v.get("violation"), why=v.get("why")) for c, v in r.get("checks", {}).items()},
                 caught_by=sorted(caught),
                 note=NOTES.get(sid, ""))
        json.dump(m, open(os.path.join(dst, "meta.json"), "w"), indent=1, ensure_ascii=False)
        note = NOTES.get(sid, "")
        if not note and os.path.isdir(os.path.join(src, sid + "2")):
            note = ("no longer applies: a later fix: commit in /repo touches neighbouring lines; re-applied onto the repaired "
                    "tree (3-way merge, content unchanged) as %s2" % sid)
            m["note"] = note
            json.dump(m, open(os.path.join(dst, "meta.json"), "w"), indent=1, ensure_ascii=False)
        index.append((sid, meta.get("property"), confirmed, sorted(caught), note))
    # rows of seeds that are not in `src` this time (earlier rounds) are kept as they are
    rows = {}
    ipath = os.path.join(out, "INDEX.md")
    if os.path.exists(ipath):
        for l in open(ipath):
            cells = [c.strip() for c in l.strip().strip("|").split("|")]
            if len(cells) >= 5 and cells[0] not in ("id", "---") and os.path.isdir(os.path.join(out, cells[0])):
                rows[cells[0]] = l if l.endswith("\n") else l + "\n"
    for sid, p, ok, caught, note in index:
        rows[sid] = f"| {sid} | {p} | {'yes' if ok else 'NO'} | {', '.join(caught) or '—'} | {note} |\n"
    with open(ipath, "w") as f:
        f.write("# Seeded changes (written by independent sub-agents that saw only the property text)\n\n")
        f.write("| id | breaks | confirmed (applies, suite passes, demo fails with / passes without) | caught by | note |\n|---|---|---|---|---|\n")
        for sid in sorted(rows):
            f.write(rows[sid])
    print(f"{len(index)} seeds collected, {len(rows)} rows in INDEX.md")


NOTES = {
    "C14_a": "needs a third side's message relayed by the mailbox; first missed (the real server object never relays one), "
             "caught since the guided schedules include a third participant (profile `third`: a stranger's PAKE / undecryptable "
             "bytes under a third side id, relayed to a subscribed client at any time).",
    "C10_a": "C10's harness uses stand-in L2 connections; the queue of DilatedConnectionProtocol is C12's model (l2Select) — caught there.",
    "C10_b": "shared class-level pending list in SubChannel: C13's territory — caught there.",
    "C15_d": "no longer applies: fix bec439a edits the same lines (the seed's author found the same defect and repaired it "
             "incompletely); re-expressed on the fixed tree as C15_d2, results below are from the pre-fix tree.",
    "C15_d2": "C15_d re-expressed on the tree after fix bec439a (written by the verifier, demo unchanged).",
    "C01_c": "manifests only when the peer's PAKE is replayed after a reconnect: caught by C14 (internal NoTransition), C09 and C02; "
             "C01's own world has no connection loss.",
    "C18_e": "depended on the defect repaired by fix 8eac7fb (its demo reaches Boss.error() during closing through the "
             "`assert self._key` failure): on the repaired tree the demo no longer fails with the patch and no schedule of the "
             "environment reaches the changed row — not expected to be caught.",
    "C03_g": "needs autobahn's Disconnected to escape from _tx into Boss.S_send; fix 335dc48 (found through this seed's scenario) "
             "removes that exception, so the reordered counter bump is unobservable on the repaired tree — not expected to be caught.",
    "C08_g": "trigger is the APPLICATION's own wormhole_got_welcome handler raising WelcomeError (an undocumented hook, marked TODO "
             "in Boss.rx_welcome), not something the server said; the environment of C08/C14 has applications that only make the "
             "documented API calls — outside the environment, kept for the record (its author flagged it as borderline).",
    "C14_i": "a third change the C14 round-4 author left as a spare (RendezvousConnector.stop() clears _ws).",
    "C03_k": "time-slices EventualQueue._turn on wall-clock time: manifests only when a callback takes >= 10 ms of real time inside one turn; "
             "the checks run on a virtual clock — detected at proof level only (WV.Props.Common.eventual_queue_is_plain_fifo, correspondence), "
             "no concrete input.",
    "C09_m": "only the closed notification is lost (key exchange and message delivery still hold; its author placed it at the edge of C09's "
             "wording): caught by C08 (close-never-completes), not by C09.",
    "C15_c": "no longer applies: fix 129b6a1 edits a line inside the loop this seed wraps; re-applied by 3-way merge as C15_c2 "
             "(results below are from the tree before that fix).",
    "C15_c2": "C15_c re-applied by 3-way merge on the tree after fix 129b6a1 (done by the verifier, demo unchanged).",
    "C09_q": "first detected at proof level only (service_is_plain_clientservice); since round 8 the long-outage probe on the REAL "
             "ClientService (3 000 / 20 000 refused attempts) gives the concrete history.",
    "C04_a": "transit replay acceptance: caught by C06 (the channel property C04 builds on).",
    "C11_z": "the changed code is Boss.got_message's phase regex (C03's anchored code): first missed by C11, caught by C03 at proof "
             "level; caught with a replay by both since two-digit dilate-N phases go through the real mailbox path (13 / 40 of them).",
    "C07_z": "first missed (never more than five connections at once); caught since the crowd corpus (20 / 40 pending inbound negotiations).",
    "C19_zz": "first missed; caught since completion queries fall between a nameplate-list request and its response.",
    "C05_z": "first detected at proof level only; caught with a replay since the sender's DECLARED archive size is varied (10 MB boundary, "
             "50 MB, 2^31, 2^40) and the user has files of their own next to the destination (<dest>.zip, .part, ...).",
    "C12_zz": "first detected at proof level only; caught with a replay since transports that hand over already-read bytes while paused "
              "and deliver the next ones from inside resumeProducing() (eager transports).",
    "C09_z": "first missed (sessions never had more than ~70 peer phases before a replay); caught since the scripted long sessions "
             "(140 / 300 / ... peer phases, then a reconnect with a full replay, then more traffic).  The same bounded-memory idea was "
             "found independently by the authors of C02_z and C14_z.",
    "C02_z": "first missed; caught since the long-session corpus of C02 (70 / 140 records, then a verbatim replay of the peer's version "
             "and first records, then a reconnect replay).",
    "C14_z": "first missed; caught since C14 runs the long-session family (kind long) and judges internal failures / self-closing.",
    "C18_z": "first missed (no Deferred-mode session read more than a handful of messages); caught since the long get_message() sessions "
             "(kind longread: 40 / 130 / ... messages, waiting reads and reads served from the backlog).",
    "C01_zz": "first missed; caught since applications derive a key from inside the verifier/versions/message callback with the peer's "
              "PAKE and VERSION arriving in one burst (kind derivecb).",
    "C03_z": "first detected at proof level only; caught with a replay since one record is delivered far behind the others "
             "(kind farahead: 40 / 70 / 150 records, one of them last).",
    "C08_zz": "needs an exception reaching Boss.error while a close() is under way (a server frame the client cannot process): first "
              "caught by C18 only (its error-path family); caught by C08 too since that family, restricted to the closing moments, "
              "is judged by C08's exactly-one-closed clause.",
    "C04_x": "first detected at proof level only (the C04 world reported losses without a reason); caught with a replay since losses "
             "are reported as Twisted reports them (Failure(ConnectionDone) / Failure(ConnectionLost) / none, per case).",
    "C12_x": "first detected at proof level only; caught with a replay since frames without ciphertext (00 00 00 00) are fed in the "
             "place of the KCM / of a later record (mutations emptykcm, emptyframe).",
    "C01_y": "first detected at proof level only; caught with a replay since applications that raise from a delegate method / status "
             "listener during key establishment are part of C01's cases (kind appfault).",
    "C09_x": "first detected at proof level only (the closing-window corpus disagreed with the model, but with no peer nothing the C09 "
             "oracle judged went wrong); caught with a replay since the oracle clause resume-duplicate.",
    "C18_x": "first detected at proof level only; caught with a replay since every message the peer sent counts as one event "
             "(event-twice:message) in the two-client runs.  The same pair of edits was found independently by the authors of C02_x and C03_x.",
}

if __name__ == "__main__":
    main()
